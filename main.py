"""Entry point: ./check <ID> [--tier quick|thorough] [--replay F] [--selftest] ...

Never run as ``python -m`` (a module loaded twice breaks replay).
"""
import argparse
import importlib
import json
import os
import sys

sys.dont_write_bytecode = True
HERE = os.path.dirname(os.path.abspath(__file__))
if HERE not in sys.path:
    sys.path.insert(0, HERE)

CHECKS = {'C02': 'checks.c02', 'C03': 'checks.c03', 'C04': 'checks.c04', 'C05': 'checks.c05',
          'C12': 'checks.c12', 'C15': 'checks.c15', 'C18': 'checks.c18'}


def load_boltons(root):
    """Import boltons from *root* (the tree under test) and nothing else."""
    root = os.path.abspath(root)
    sys.path[0:0] = [root]
    for name in list(sys.modules):
        if name == 'boltons' or name.startswith('boltons.'):
            del sys.modules[name]
    import boltons
    got = os.path.dirname(os.path.dirname(os.path.abspath(boltons.__file__)))
    if os.path.realpath(got) != os.path.realpath(root):
        raise SystemExit('HARNESS-ERROR boltons imported from %s, wanted %s' % (got, root))
    return root


def main(argv=None):
    import gc
    gc.disable()     # no finalizer runs inside a simulated case (simkit/driver.py: safe_run_case)
    ap = argparse.ArgumentParser()
    ap.add_argument('prop', nargs='?')
    ap.add_argument('--tier', default=os.environ.get('VERIF_TIER', 'quick'),
                    choices=['quick', 'thorough'])
    ap.add_argument('--seed', type=int, default=int(os.environ.get('VERIF_SEED', '0') or 0))
    ap.add_argument('--root', default=os.environ.get('VERIF_BOLTONS_ROOT', '/repo'))
    ap.add_argument('--budget', type=float,
                    default=(float(os.environ['VERIF_BUDGET_S'])
                             if os.environ.get('VERIF_BUDGET_S') else None))
    ap.add_argument('--workers', type=int,
                    default=int(os.environ.get('VERIF_WORKERS', '0')) or None)
    ap.add_argument('--min-runs', type=int, default=None)
    ap.add_argument('--replay')
    ap.add_argument('--selftest', action='store_true')
    ap.add_argument('--digests', type=int, help='internal: print digests of the first N runs')
    ap.add_argument('--setup', action='store_true')
    ap.add_argument('--run-index', type=int, help='debug: execute one seeded run and print it')
    args = ap.parse_args(argv)

    if args.setup:
        load_boltons(args.root)
        for m in CHECKS.values():
            importlib.import_module(m)
        print('setup ok: python %s, boltons from %s' % (sys.version.split()[0], args.root))
        return 0
    if args.prop not in CHECKS:
        print('HARNESS-ERROR unknown property %r (claimed: %s)' % (args.prop, ', '.join(sorted(CHECKS))))
        return 2
    root = load_boltons(args.root)
    mod = importlib.import_module(CHECKS[args.prop])
    mod.setup(root)
    from simkit import driver, core
    driver._ROOT = root
    if args.digests is not None:
        print(json.dumps(driver.digests_local(mod, args.seed, args.tier, args.digests)))
        return 0
    if args.run_index is not None:
        case = mod.gen_case(core.rng_for(args.seed, mod.PROPERTY, args.run_index), args.tier)
        out = mod.run_case(case)
        print(json.dumps({'case': case, 'violation': out.violation, 'digest': out.digest,
                          'probes': out.probes, 'faults': out.faults, 'known': out.known},
                         indent=1, default=core._json_default))
        return 1 if out.violation else 0
    if args.replay:
        with open(args.replay) as fh:
            want_opt = int(json.load(fh).get('python_optimize', 0) or 0)
        if bool(want_opt) != bool(sys.flags.optimize):
            # the violation was found under another interpreter configuration: replay under the same one
            import subprocess
            cmd = [sys.executable] + (['-O'] if want_opt else []) + ['-B', '-X', 'faulthandler', os.path.abspath(__file__)] + \
                  (argv if argv is not None else sys.argv[1:])
            return subprocess.call(cmd, env=dict(os.environ, PYTHONOPTIMIZE='' if not want_opt else os.environ.get('PYTHONOPTIMIZE', '')))
        return driver.replay(mod, args.replay, root)
    if args.selftest:
        return driver.selftest(mod, args.tier, args.seed, root)
    return driver.run_check(mod, args.tier, args.seed, root, budget_s=args.budget,
                            workers=args.workers, min_runs=args.min_runs,
                            selftest=args.selftest)


if __name__ == '__main__':
    try:
        rc = main()
    except SystemExit:
        raise
    except BaseException:
        import traceback
        traceback.print_exc()
        print('HARNESS-ERROR uncaught exception in the harness (see traceback on stderr)')
        rc = 2
    sys.exit(rc)
