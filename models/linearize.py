"""Linearizability of a concurrent LRI/LRU history against models.lru_model.

History: per logical thread, a list of records
    {'op': op, 'inv': int, 'ret': int, 'out': outcome}
with inv/ret the scheduler's global step stamps (unique, totally ordered) and
outcome = ('ok', value) | ('exc', type-name).  A linearisation is a total order
that respects each thread's program order and real-time order (a.ret < b.inv =>
a before b) in which every outcome is what the sequential model returns and whose
final state equals the probed final contents *and* eviction order.

Two specifications:
  strict  -- every operation takes effect at one instant;
  relaxed -- identical, except that an operation executed as one lock-free C call on
             the underlying dict (len, in, dict(), list()) and overlapping an
             in-flight locked operation in real time may observe the dict after any
             *prefix* of that one operation's dict-level steps (known finding C03-F1).
"""
from . import lru_model as M


def _outcome_eq(a, b):
    return a == b


class Checker:
    def __init__(self, spec, threads, final_items, final_order, init_state=None, max_nodes=400000):
        self.spec = spec
        self.threads = threads
        self.n = len(threads)
        self.final_items = final_items      # dict or None (not probed)
        self.final_order = final_order      # list oldest->newest or None
        self.init = init_state if init_state is not None else spec.initial()
        self.max_nodes = max_nodes
        self.nodes = 0
        self.exhausted = False

    def _final_ok(self, state):
        if self.final_items is not None and M.contents(state) != self.final_items:
            return False
        if self.final_order is not None and M.order(state) != self.final_order:
            return False
        return True

    def _minimal(self, done, t):
        """May thread t's next op be linearised next w.r.t. real-time order?"""
        o = self.threads[t][done[t]]
        for u in range(self.n):
            if u != t and done[u] < len(self.threads[u]):
                q = self.threads[u][done[u]]
                if q['ret'] < o['inv']:
                    return False
        return True

    def check(self, relaxed):
        self.nodes = 0
        self.exhausted = False
        self.memo = set()
        self.relaxed = relaxed
        self.used_relaxation = False
        # contents/order only: counters are not part of the concurrent specification
        st = (self.init[0], 0, 0, 0)
        return self._search(tuple([0] * self.n), st)

    def _search(self, done, state):
        if all(done[t] >= len(self.threads[t]) for t in range(self.n)):
            return self._final_ok(state)
        key = (done, state[0])
        if key in self.memo:
            return False
        self.nodes += 1
        if self.nodes > self.max_nodes:
            self.exhausted = True
            return False
        for t in range(self.n):
            if done[t] >= len(self.threads[t]) or not self._minimal(done, t):
                continue
            rec = self.threads[t][done[t]]
            for out, st2, views, _calls in M.apply(self.spec, state, rec['op']):
                if not _outcome_eq(out, rec['out']):
                    continue
                st2 = (st2[0], 0, 0, 0)
                nd = done[:t] + (done[t] + 1,) + done[t + 1:]
                if self._search(nd, st2):
                    return True
                if self.relaxed and len(views) > 1 and rec['op'][0] not in M.LOCK_FREE_READS:
                    if self._in_flight(done, t, rec, views, 0, st2):
                        self.used_relaxation = True
                        return True
        self.memo.add(key)
        return False

    def _in_flight(self, done, t, mrec, views, i, st_after):
        """Operation mrec (thread t) has performed dict-level steps views[:i+1]; lock-free
        reads of other threads that overlap it may be linearised against views[i].
        Iterative over the view index (bulk operations have thousands of steps); recursion
        only when a read is consumed."""
        last = len(views) - 1
        while i < last:
            self.nodes += 1
            if self.nodes > self.max_nodes:
                self.exhausted = True
                return False
            view_state = None
            for u in range(self.n):
                if u == t or done[u] >= len(self.threads[u]):
                    continue
                r = self.threads[u][done[u]]
                if r['op'][0] not in M.LOCK_FREE_READS:
                    continue
                # r must overlap mrec in real time, and be minimal among the others
                if not (r['inv'] < mrec['ret'] and mrec['inv'] < r['ret']):
                    continue
                ok = True
                for w in range(self.n):
                    if w not in (u, t) and done[w] < len(self.threads[w]):
                        if self.threads[w][done[w]]['ret'] < r['inv']:
                            ok = False
                            break
                if not ok:
                    continue
                if view_state is None:
                    view_state = (views[i], 0, 0, 0)
                out = M.apply(self.spec, view_state, r['op'])[0][0]
                if out == r['out']:
                    nd = done[:u] + (done[u] + 1,) + done[u + 1:]
                    if self._in_flight(nd, t, mrec, views, i, st_after):
                        return True
            i += 1
        nd = done[:t] + (done[t] + 1,) + done[t + 1:]
        return self._search(nd, st_after)


def classify(spec, threads, final_items, final_order, init_state=None):
    """-> 'strict' | 'relaxed' | 'no' | 'unknown' (search budget exhausted)"""
    c = Checker(spec, threads, final_items, final_order, init_state)
    if c.check(False):
        return 'strict'
    if c.exhausted:
        return 'unknown'
    if c.check(True):
        return 'relaxed'
    if c.exhausted:
        return 'unknown'
    return 'no'
