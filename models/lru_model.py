"""Executable sequential specification of boltons.cacheutils.LRI / LRU (property C02),
also the specification the C03 linearizability checker searches against.

State is immutable: (items, hit, miss, soft) with items a tuple of (key, value)
pairs ordered oldest -> newest ("newest" = most recently inserted/assigned, and for
LRU also most recently looked up).  Keys and values are ordinary Python objects.

apply(state, op) returns a list of alternatives [(outcome, new_state, views)] --
more than one only for popitem(), which the property leaves unspecified ("any
present pair").  ``views`` lists the dict contents visible to a lock-free reader
after each dict-level step of the operation, the last one being the final contents
(used only by the relaxed C03 oracle).
"""

MISS = ('miss',)


class Spec:
    def __init__(self, kind, max_size, on_miss='none', nkeys=0):
        self.kind = kind            # 'LRI' | 'LRU'
        self.max_size = max_size
        self.on_miss = on_miss      # 'none' | 'pure' | 'reent_set' | 'reent_get'
        self.nkeys = nkeys

    def initial(self):
        return ((), 0, 0, 0)


class _M:
    """Mutable working copy used while one operation is applied."""

    def __init__(self, spec, state):
        self.spec = spec
        self.items = list(state[0])
        self.hit, self.miss, self.soft = state[1], state[2], state[3]
        self.views = []
        self.on_miss_calls = []

    def freeze(self):
        return (tuple(self.items), self.hit, self.miss, self.soft)

    def view(self):
        self.views.append(tuple(self.items))

    def index(self, key):
        for i, (k, _v) in enumerate(self.items):
            if k == key:
                return i
        return -1

    # --- primitive operations, mirroring the documented semantics -----------------
    def setitem(self, key, value):
        i = self.index(key)
        if i >= 0:
            k0 = self.items[i][0]         # the dict keeps the first-inserted key object
            del self.items[i]
            self.items.append((k0, value))
            self.view()
            return
        if len(self.items) >= self.spec.max_size:
            del self.items[0]
            self.view()
        self.items.append((key, value))
        self.view()

    def getitem(self, key):
        i = self.index(key)
        if i >= 0:
            self.hit += 1
            kv = self.items[i]
            if self.spec.kind == 'LRU':
                del self.items[i]
                self.items.append(kv)
            return ('ok', kv[1])
        self.miss += 1
        if self.spec.on_miss == 'none':
            return ('exc', 'KeyError')
        if self.spec.on_miss == 'raises' and on_miss_raises(key):
            self.on_miss_calls.append(key)
            return ('exc', 'LookupError')        # the callback's own exception reaches the caller
        val = self.call_on_miss(key)
        self.setitem(key, val)
        return ('ok', val)

    def call_on_miss(self, key):
        self.on_miss_calls.append(key)
        om = self.spec.on_miss
        if isinstance(key, tuple) and key[:1] == ('side',):
            return ('miss', key)          # the re-entrant callbacks do not recurse further
        if om == 'reent_same':
            self.setitem(key, ('pre', key))
        elif om == 'reent_set':
            self.setitem(('side', key), ('sideval', key))
        elif om == 'reent_get':
            # the callback looks another key up through the cache with get()
            self.get(('side', key), None)
        return ('miss', key)

    def get(self, key, default):
        r = self.getitem(key)
        if r == ('exc', 'KeyError'):
            self.soft += 1
            return ('ok', default)
        return r

    def setdefault(self, key, default):
        r = self.getitem(key)
        if r == ('exc', 'KeyError'):
            self.soft += 1
            self.setitem(key, default)
            return ('ok', default)
        return r

    def delitem(self, key):
        i = self.index(key)
        if i < 0:
            return ('exc', 'KeyError')
        del self.items[i]
        self.view()
        return ('ok', None)

    def pop(self, key, default=MISS):
        i = self.index(key)
        if i < 0:
            if default is MISS:
                return ('exc', 'KeyError')
            return ('ok', default)
        v = self.items[i][1]
        del self.items[i]
        self.view()
        return ('ok', v)


def on_miss_raises(key):
    """The 'raises' callback fails (LookupError) for odd ints and for the strings a, c, e."""
    if isinstance(key, bool):
        return False
    if isinstance(key, int):
        return key % 2 == 1
    return key in ('a', 'c', 'e')


def contents(state):
    return dict(state[0])


def order(state):
    return [k for k, _v in state[0]]


def counters(state):
    return (state[1], state[2], state[3])


def apply(spec, state, op):
    """-> list of (outcome, new_state, views, on_miss_calls)"""
    name = op[0]
    m = _M(spec, state)
    if name == 'set':
        m.setitem(op[1], op[2])
        out = ('ok', None)
    elif name == 'get':
        out = m.getitem(op[1])
    elif name == 'getd':
        out = m.get(op[1], op[2])
    elif name == 'setdefault':
        out = m.setdefault(op[1], op[2])
    elif name == 'del':
        out = m.delitem(op[1])
    elif name == 'pop':
        out = m.pop(op[1])
    elif name == 'popd':
        out = m.pop(op[1], op[2])
    elif name == 'popitem':
        if not m.items:
            return [(('exc', 'KeyError'), state, [], [])]
        alts = []
        for i in range(len(m.items)):
            items = list(m.items)
            kv = items.pop(i)
            st = (tuple(items), m.hit, m.miss, m.soft)
            alts.append((('ok', kv), st, [tuple(items)], []))
        return alts
    elif name == 'clear':
        m.items = []
        m.view()
        out = ('ok', None)
    elif name in ('update', 'ior'):
        for k, v in op[1]:
            m.setitem(k, v)
        out = ('ok', None)
    elif name == 'update_rmw':
        # update() from a generator that reads the cache while update() consumes it:
        # c.update((k, '%s>%s' % (c.get(k, 'none'), tag)) for k in keys) -- one atomic read-modify-write
        out = ('ok', None)
        for k in op[1]:
            cur = m.get(k, 'none')
            if cur[0] != 'ok':
                out = cur           # an on_miss that raises: the pairs produced so far are stored, the call raises
                break
            m.setitem(k, '%s>%s' % (cur[1], op[2]))
    elif name == 'update_bad':
        # update() from a sequence whose last element is not a pair: the good pairs are assigned, then it raises
        for k, v in op[1]:
            m.setitem(k, v)
        out = ('exc', 'ValueError')
    elif name == 'in':
        out = ('ok', m.index(op[1]) >= 0)
    elif name == 'repr':
        out = ('ok', 'str')          # repr(cache) is a read of the whole cache: it returns a string, it never raises
    elif name == 'len':
        out = ('ok', len(m.items))
    elif name == 'dict':
        out = ('ok', dict(m.items))
    elif name == 'keys':
        out = ('ok', ('keys', len(m.items), {k: None for k, _ in m.items}))
    elif name == 'eq':
        out = ('ok', dict(m.items) == dict(op[1]))
    elif name == 'ne':
        out = ('ok', dict(m.items) != dict(op[1]))
    elif name == 'eqself':
        out = ('ok', True)
    elif name == 'noop':            # c.update(c), c |= c: a cache updated from itself does not change
        out = ('ok', None)
    elif name == 'copy':
        out = ('ok', {'cls': spec.kind, 'max_size': spec.max_size, 'items': dict(m.items),
                      'order': [k for k, _ in m.items]})
    else:
        raise AssertionError('model: unknown op %r' % (op,))
    return [(out, m.freeze(), m.views, m.on_miss_calls)]


#: operations that take no lock in LRI/LRU (inherited from dict, executed as one C call)
# ('noop': an operation without result or effect -- a kept iterator, update(self) -- may be placed anywhere, also among
# the lock-free reads that observe one in-flight operation)
LOCK_FREE_READS = frozenset(['in', 'len', 'dict', 'keys', 'repr', 'noop'])

#: exception types an operation can raise in *some* sequential state
POSSIBLE_EXC = {
    'get': {'KeyError', 'LookupError'}, 'del': {'KeyError'}, 'pop': {'KeyError'}, 'popitem': {'KeyError'},
    'getd': {'LookupError'}, 'setdefault': {'LookupError'}, 'update_bad': {'ValueError'}, 'update_rmw': {'LookupError'},
}
