"""simkit.driver -- parallel seeded search, minimisation, replay files, evidence.

Exit codes of a check: 0 held on everything explored; 1 violation (a line
``VIOLATION property=<id> replay=<path>`` is printed); 2 harness error (no
VIOLATION line is ever printed in that case).
"""
import concurrent.futures as cf
import faulthandler
import gc
import hashlib
import json
import multiprocessing
import os
import subprocess
import sys
import time
import traceback

from . import core

VERIF_DIR = os.path.dirname(os.path.dirname(os.path.abspath(__file__)))
OUT_DIR = os.environ.get('VERIF_OUT_DIR') or os.path.join(VERIF_DIR, 'out')
EVID_DIR = os.environ.get('VERIF_EVIDENCE_DIR') or os.path.join(VERIF_DIR, 'evidence')
KNOWN_FILE = os.path.join(VERIF_DIR, 'known_findings.json')

_MOD = None      # the check module, set in the parent before forking
_TIER = 'quick'
_SEED = 0


class HarnessError(Exception):
    pass


def source_fingerprint(root, files):
    h = hashlib.sha256()
    for f in sorted(files):
        p = os.path.join(root, f)
        try:
            with open(p, 'rb') as fh:
                h.update(f.encode() + b'\0' + fh.read() + b'\0')
        except OSError:
            h.update(f.encode() + b'\0<missing>\0')
    return h.hexdigest()


# ----------------------------------------------------------------------------
# worker side

_ROOT = None


_CASES_SINCE_GC = 0


def safe_run_case(mod, case):
    """run_case, except that an exception which escapes the harness but was *raised inside the
    code under test* (innermost traceback frame under <root>/boltons) is a violation of its own
    class, not a harness error: the harness called the library somewhere it did not expect it
    to fail.  Anything raised by harness code itself still propagates (exit 2).

    The cyclic garbage collector is a scheduler the simulation does not own: when it runs depends on
    the allocation history of the process, and the finalizers it calls (``SpooledIOBase.__del__``, a
    generator's close) execute code of the module under test -- inside a threaded run, at traced
    instructions, i.e. as extra pre-emption points of whatever case happens to be running.  So it
    never runs inside a case: automatic collection is off, and garbage is collected between cases."""
    global _CASES_SINCE_GC
    if gc.isenabled():
        gc.disable()
    _CASES_SINCE_GC += 1
    if _CASES_SINCE_GC >= 64:
        _CASES_SINCE_GC = 0
        gc.collect()
    oom = False
    try:
        return mod.run_case(case)
    except MemoryError:
        # allocation without end in the code under test (the address-space limit of the process stopped it): leave
        # the handler first, so that the frames holding the data are released, then report
        oom = True
    except Exception as e:
        tb = e.__traceback__
        last = None
        while tb is not None:
            last = tb
            tb = tb.tb_next
        fn = last.tb_frame.f_code.co_filename if last is not None else ''
        root = os.path.join(os.path.realpath(_ROOT or '/repo'), 'boltons') + os.sep
        chain_in_lib = False
        tb = e.__traceback__
        while tb is not None:
            if os.path.realpath(tb.tb_frame.f_code.co_filename).startswith(root):
                chain_in_lib = True
            tb = tb.tb_next
        if not chain_in_lib:
            raise
        out = core.Outcome()
        where = '%s:%d' % (os.path.basename(fn), last.tb_lineno)
        out.fail('exception-escaped-code-under-test', 0,
                 '%s: %s raised at %s while the harness was driving the library (not an outcome any '
                 'operation of the property may have)' % (type(e).__name__, str(e)[:200], where),
                 exc=type(e).__name__)
        out.digest = 'exc:' + type(e).__name__
        return out
    if oom:
        gc.collect()
        out = core.Outcome()
        out.fail('exception-escaped-code-under-test', 0,
                 'MemoryError: the run allocated until the address-space limit of the process was reached (an operation '
                 'that never ends, or reads or writes without bound)', exc='MemoryError')
        out.digest = 'exc:MemoryError'
        return out


def _summ_new():
    return {'runs': 0, 'steps': 0, 'sim_time': 0.0, 'faults': {}, 'probes': {},
            'nontrivial': set(), 'violations': [], 'known': {}, 'digests': {},
            'samples': [], 'extra': {}}


def _summ_add(summ, idx, case, out, kind, want_digest):
    summ['runs'] += 1
    summ['steps'] += out.steps
    summ['sim_time'] += out.sim_time
    core.merge_counts(summ['faults'], out.faults)
    core.merge_counts(summ['probes'], out.probes)
    summ['nontrivial'].update(out.nontrivial)
    for k, v in out.extra.items():
        if isinstance(v, (int, float)):
            summ['extra'][k] = summ['extra'].get(k, 0) + v
    for kid in out.known:
        ent = summ['known'].setdefault(kid, {'count': 0, 'first': None})
        ent['count'] += 1
        if ent['first'] is None:
            ent['first'] = (kind, idx, case)
    if out.violation is not None and len(summ['violations']) < 6:
        summ['violations'].append((kind, idx, case, out.violation, out.digest))
    elif out.violation is not None:
        summ['extra']['violations_not_kept'] = summ['extra'].get('violations_not_kept', 0) + 1
    if want_digest:
        summ['digests'][idx] = out.digest


def _run_block(kind, start, count, want_digests):
    """Executed in a forked worker: run cases [start, start+count)."""
    faulthandler.dump_traceback_later(600, exit=True)
    try:
        import resource
        resource.setrlimit(resource.RLIMIT_AS, (3 << 29, 3 << 29))   # runaway allocation -> MemoryError
    except Exception:
        pass
    mod = _MOD
    summ = _summ_new()
    try:
        fixed = mod.fixed_cases(_TIER) if kind == 'fixed' else None
        for idx in range(start, start + count):
            if kind == 'fixed':
                case = fixed[idx]
            else:
                case = mod.gen_case(core.rng_for(_SEED, mod.PROPERTY, idx), _TIER)
            out = safe_run_case(mod, case)
            _summ_add(summ, idx, case, out, kind,
                      want_digests and kind == 'seeded' and idx < want_digests)
            if kind == 'seeded' and idx % 97 == 0 and len(summ['samples']) < 2:
                summ['samples'].append(case)
    except BaseException:
        return {'error': 'run %s/%d: %s' % (kind, idx, traceback.format_exc())}
    finally:
        faulthandler.cancel_dump_traceback_later()
    return summ


def _history_block(start, count):
    faulthandler.dump_traceback_later(900, exit=True)
    mod = _MOD
    try:
        first = {}
        for idx in range(start, start + count):
            out = safe_run_case(mod, mod.gen_case(core.rng_for(_SEED, mod.PROPERTY, idx), _TIER))
            first[idx] = (out.digest, core.viol_key(out.violation) if out.violation else None)
        bad = []
        for idx in reversed(range(start, start + count)):
            out = safe_run_case(mod, mod.gen_case(core.rng_for(_SEED, mod.PROPERTY, idx), _TIER))
            if (out.digest, core.viol_key(out.violation) if out.violation else None) != first[idx]:
                bad.append(idx)
        return {'bad': bad, 'n': count}
    except BaseException:
        return {'error': 'history block %d: %s' % (start, traceback.format_exc())}
    finally:
        faulthandler.cancel_dump_traceback_later()


# ----------------------------------------------------------------------------
# parent side

def load_known(prop):
    try:
        with open(KNOWN_FILE) as fh:
            data = json.load(fh)
    except FileNotFoundError:
        return []
    return [e for e in data.get('findings', []) if e.get('property') == prop]


def match_known(viol, known):
    """An open finding matches iff every key of its signature equals the violation's."""
    for e in known:
        if e.get('status') != 'open':
            continue
        sig = e.get('signature') or {}
        if sig.get('oracle'):
            continue   # executable-oracle findings are matched inside run_case
        if sig and all(viol['sig'].get(k) == v for k, v in sig.items()):
            return e
    return None


def _merge(total, s):
    total['runs'] += s['runs']
    total['steps'] += s['steps']
    total['sim_time'] += s['sim_time']
    core.merge_counts(total['faults'], s['faults'])
    core.merge_counts(total['probes'], s['probes'])
    core.merge_counts(total['extra'], s['extra'])
    if len(total['nontrivial']) < 4_000_000:
        total['nontrivial'].update(s['nontrivial'])
    else:
        total['extra']['nontrivial_set_capped'] = 1
    total['violations'].extend(s['violations'])
    for kid, ent in s['known'].items():
        t = total['known'].setdefault(kid, {'count': 0, 'first': None})
        t['count'] += ent['count']
        if t['first'] is None or (ent['first'] and ent['first'][:2] < t['first'][:2]):
            t['first'] = ent['first']
    total['digests'].update(s['digests'])
    if len(total['samples']) < 6:
        total['samples'].extend(s['samples'][:6 - len(total['samples'])])


def _pool_run(jobs, workers, deadline_each=900):
    """jobs: iterable of (kind, start, count, want_digests); yields summaries."""
    ctx = multiprocessing.get_context('fork')
    ex = cf.ProcessPoolExecutor(max_workers=workers, mp_context=ctx)
    try:
        pending = {}
        it = iter(jobs)
        exhausted = False
        while True:
            while not exhausted and len(pending) < workers * 2:
                try:
                    j = next(it)
                except StopIteration:
                    exhausted = True
                    break
                pending[ex.submit(_run_block, *j)] = (j, time.monotonic())
            if not pending:
                break
            done, _ = cf.wait(list(pending), timeout=5, return_when=cf.FIRST_COMPLETED)
            now = time.monotonic()
            for f in done:
                j, _t = pending.pop(f)
                try:
                    r = f.result()
                except Exception as e:      # BrokenProcessPool etc.
                    raise HarnessError('worker died on block %r: %r' % (j[:3], e))
                if 'error' in r:
                    raise HarnessError(r['error'])
                yield r
            for f, (j, t0) in pending.items():
                if now - t0 > deadline_each:
                    raise HarnessError('block %r exceeded %ds wall' % (j[:3], deadline_each))
    except BaseException:
        procs = list((getattr(ex, '_processes', None) or {}).values())
        ex.shutdown(wait=False, cancel_futures=True)
        for p in procs:
            try:
                p.kill()
            except Exception:
                pass
        raise
    else:
        ex.shutdown(wait=True)


def _fresh_interpreter_digests(prop, seed, tier, n, root, hashseed):
    env = dict(os.environ, PYTHONHASHSEED=str(hashseed), VERIF_SEED=str(seed),
               VERIF_BOLTONS_ROOT=root, PYTHONDONTWRITEBYTECODE='1')
    cmd = [sys.executable] + (['-O'] if sys.flags.optimize else []) + ['-B', os.path.join(VERIF_DIR, 'main.py'), prop,
                                                                       '--digests', str(n), '--tier', tier]
    p = subprocess.run(cmd, env=env, capture_output=True, text=True, timeout=600)
    if p.returncode != 0:
        raise HarnessError('fresh interpreter failed: ' + p.stderr[-2000:])
    return {int(k): v for k, v in json.loads(p.stdout.strip().splitlines()[-1]).items()}


def digests_local(mod, seed, tier, n):
    d = {}
    for idx in range(n):
        case = mod.gen_case(core.rng_for(seed, mod.PROPERTY, idx), tier)
        d[idx] = safe_run_case(mod, case).digest
    return d


def minimise(mod, case, viol):
    key = core.viol_key(viol)
    tests = [0]

    def fails(c):
        tests[0] += 1
        if tests[0] > getattr(mod, 'SHRINK_BUDGET', 4000):
            return False
        try:
            o = safe_run_case(mod, c)
        except Exception:
            return False     # a shrunk case the harness cannot execute is not a reproduction
        return o.violation is not None and core.viol_key(o.violation) == key

    shrink = getattr(mod, 'shrink', None)
    if shrink is None:
        return case, tests[0]
    try:
        small = shrink(case, fails)
    except Exception:
        traceback.print_exc()
        small = case
    # the result must itself reproduce (shrink passes only keep reproducing cases,
    # but verify once more end to end)
    if small is not case and not fails(small):
        small = case
    return small, tests[0]


def write_replay(mod, seed, kind, idx, case, out, root, minimised_from=None):
    os.makedirs(OUT_DIR, exist_ok=True)
    path = os.path.join(OUT_DIR, '%s-%d-%s%s%d.json' % (mod.PROPERTY, seed, 'O' if sys.flags.optimize else '',
                                                          'f' if kind == 'fixed' else '', idx))
    doc = {'format': 1, 'property': mod.PROPERTY, 'engine': mod.ENGINE, 'seed': seed,
           'python_optimize': sys.flags.optimize,
           'run': idx, 'run_kind': kind, 'case': case, 'violation': out.violation,
           'digest': out.digest,
           'source_fingerprint': source_fingerprint(root, mod.SOURCE_FILES),
           'minimised_from': minimised_from}
    with open(path, 'w') as fh:
        fh.write(json.dumps(doc, indent=1, sort_keys=True, default=core._json_default))
        fh.write('\n')
    return path


def replay(mod, path, root):
    with open(path) as fh:
        doc = json.load(fh)
    case = mod.case_from_json(doc['case']) if hasattr(mod, 'case_from_json') else doc['case']
    out = safe_run_case(mod, case)
    exp = doc['violation']
    if out.violation is None and exp['class'].startswith('known-family-not-listed:'):
        kid = exp['class'].split(':', 1)[1]
        if kid in out.known:
            print('replayed: the case still exhibits the finding family %s' % kid)
            print('VIOLATION property=%s replay=%s' % (mod.PROPERTY, path))
            return 1
    if out.violation is None:
        print('replay: the tree no longer exhibits %s (expected class %s)' % (path, exp['class']))
        return 0
    same_tree = doc.get('source_fingerprint') == source_fingerprint(root, mod.SOURCE_FILES)
    if core.viol_key(out.violation) != core.viol_key(exp) or out.violation['step'] != exp['step']:
        if same_tree:
            print('HARNESS-ERROR replay diverged on an identical tree: got %r expected %r'
                  % (out.violation, exp))
            return 2
        print('replay: different violation on a different tree: %r' % (out.violation,))
    elif same_tree and out.digest != doc['digest']:
        print('HARNESS-ERROR replay digest mismatch on identical tree (%s vs %s)'
              % (out.digest, doc['digest']))
        return 2
    print('replayed: class=%s step=%s detail=%s' % (out.violation['class'], out.violation['step'],
                                                  out.violation['detail']))
    print('VIOLATION property=%s replay=%s' % (mod.PROPERTY, path))
    return 1


def run_check(mod, tier, seed, root, budget_s=None, workers=None, min_runs=None,
              selftest=False):
    global _MOD, _TIER, _SEED, _ROOT
    _MOD, _TIER, _SEED, _ROOT = mod, tier, seed, root
    t0 = time.monotonic()
    workers = workers or min(16, os.cpu_count() or 1)
    cfg = mod.TIERS[tier]
    budget_s = cfg['budget_s'] if budget_s is None else budget_s
    min_runs = cfg['min_runs'] if min_runs is None else min_runs
    block = cfg.get('block', 200)
    ndig = 16 if not selftest else 200
    known = load_known(mod.PROPERTY)
    try:
        # the parent re-executes violating cases (to minimise them): code under test that allocates without end
        # must end in a MemoryError there too, not take the machine down (workers have their own, lower limit)
        import resource
        resource.setrlimit(resource.RLIMIT_AS, (3 << 30, 3 << 30))
    except Exception:
        pass
    print('check %s tier=%s VERIF_SEED=%d root=%s workers=%d min_runs=%d budget=%ss'
          % (mod.PROPERTY, tier, seed, root, workers, min_runs, budget_s), flush=True)

    total = _summ_new()
    subpass = bool(os.environ.get('VERIF_SUBPASS'))
    nfixed = 0 if subpass else len(mod.fixed_cases(tier))

    def jobs():
        for s in range(0, nfixed, cfg.get('fixed_block', 50)):
            yield ('fixed', s, min(cfg.get('fixed_block', 50), nfixed - s), 0)
        s = 0
        while s < min_runs or (time.monotonic() - t0) < budget_s:
            if s >= cfg.get('max_runs', 1 << 62):
                break
            yield ('seeded', s, block, ndig)
            s += block

    try:
        for summ in _pool_run(jobs(), workers):
            _merge(total, summ)
        # --- determinism self-test sample (every invocation) -------------------
        want = {i: total['digests'][i] for i in range(min(ndig, total['runs'] - nfixed))
                if i in total['digests']}
        again = digests_local(mod, seed, tier, len(want))
        bad = [i for i in want if want[i] != again[i]]
        if bad:
            raise HarnessError('nondeterminism: worker vs parent digests differ for runs %r' % bad[:5])
        fresh = _fresh_interpreter_digests(mod.PROPERTY, seed, tier, len(want), root,
                                           hashseed=12345)
        bad = [i for i in want if want[i] != fresh[i]]
        if bad:
            raise HarnessError('nondeterminism: fresh interpreter (PYTHONHASHSEED=12345) '
                               'digests differ for runs %r' % bad[:5])
        total['extra']['determinism_digests_compared'] = 3 * len(want)
    except HarnessError as e:
        print('HARNESS-ERROR %s' % e, flush=True)
        return 2

    # --- violations: dedupe, minimise, classify --------------------------------
    exit_code = 0
    reported = []
    known_lines = {}
    seen_keys = set()
    total['violations'].sort(key=lambda v: (v[0] != 'fixed', v[1]))
    nviol = len(total['violations']) + int(total['extra'].get('violations_not_kept', 0))
    for kind, idx, case, viol, digest in total['violations']:
        k0 = core.viol_key(viol)
        if k0 in seen_keys:
            continue
        seen_keys.add(k0)
        if len(reported) + len(known_lines) >= 12:
            break
        small, ntests = minimise(mod, case, viol)
        out = safe_run_case(mod, small)
        if out.violation is None:       # cannot happen (minimise re-verifies); be safe
            small, out = case, safe_run_case(mod, case)
        if out.violation is None:
            print('HARNESS-ERROR violation of run %s/%d did not reproduce in the parent' % (kind, idx))
            return 2
        e = match_known(out.violation, known)
        if e is not None:
            known_lines.setdefault(e['id'], 'KNOWN-FINDING: property=%s %s %s'
                                   % (mod.PROPERTY, e['id'], e['what']))
            continue
        k1 = core.viol_key(out.violation)
        if k1 in [r[0] for r in reported]:
            continue
        path = write_replay(mod, seed, kind, idx, small, out, root,
                            minimised_from={'case_size': mod.case_size(case),
                                            'minimised_size': mod.case_size(small),
                                            'shrink_tests': ntests})
        reported.append((k1, path, out.violation))
    for kid, ent in sorted(total['known'].items()):
        e = [x for x in known if x['id'] == kid and x.get('status') == 'open']
        if e:
            known_lines.setdefault(kid, 'KNOWN-FINDING: property=%s %s %s (seen in %d runs)'
                                   % (mod.PROPERTY, kid, e[0]['what'], ent['count']))
        else:
            # the check classified it as a known family but the committed file does not
            # list it as open: it is a plain violation.
            kind, idx, case = ent['first']
            out = mod.run_case(case)
            out.violation = out.violation or {'class': 'known-family-not-listed:' + kid,
                                              'step': 0, 'detail': 'see case',
                                              'sig': {'class': kid}}
            path = write_replay(mod, seed, kind, idx, case, out, root)
            reported.append((kid, path, out.violation))
    for line in known_lines.values():
        print(line)
    for k1, path, viol in reported:
        print('violation class=%s step=%s: %s' % (viol['class'], viol['step'], viol['detail']))
        print('VIOLATION property=%s replay=%s' % (mod.PROPERTY, path))
        exit_code = 1

    if not subpass and not sys.flags.optimize and exit_code == 0:
        # (with violations already reported the verdict is settled; the extra configuration would only cost time)
        rc2, info = _optimized_pass(mod, tier, seed, root, budget_s, min_runs, workers)
        total['extra']['optimized_interpreter_pass'] = info
        if rc2 == 2 and info.get('timed_out'):
            # an overloaded machine: the extra configuration was not explored, which the evidence says; what was
            # explored held
            print('NOTE the pass under python -O did not finish within its wall-clock limit and is not part of this result')
        elif rc2 == 2:
            print('HARNESS-ERROR the pass under python -O failed: %s' % info.get('tail', ''))
            return 2
        if rc2 == 1:
            exit_code = 1
    wall = time.monotonic() - t0
    write_evidence(mod, tier, seed, total, nfixed, wall, len(reported), nviol,
                   sorted(known_lines), workers)
    print('%s: %d runs (%d fixed + %d seeded) in %.1fs, %d steps, nontrivial-distinct=%d, '
          'violating runs=%d, reported=%d, known=%s'
          % (mod.PROPERTY, total['runs'], nfixed, total['runs'] - nfixed, wall, total['steps'],
             len(total['nontrivial']), nviol, len(reported), sorted(known_lines)), flush=True)
    return exit_code


def _optimized_pass(mod, tier, seed, root, budget_s, min_runs, workers):
    """A short pass of the same check in an interpreter started with -O (assert statements are not executed,
    __debug__ is False): the interpreter's configuration is part of the environment the properties quantify
    over, like the hash seed.  Seeded runs only; its violations are reported like any other (their replay
    files record the flag, and --replay re-executes under it)."""
    import subprocess
    import tempfile
    main_py = os.path.join(os.path.dirname(os.path.dirname(os.path.abspath(__file__))), 'main.py')
    tmp = tempfile.mkdtemp(prefix='verif-opt-evidence-')
    env = dict(os.environ, VERIF_SUBPASS='1', VERIF_EVIDENCE_DIR=tmp, VERIF_OUT_DIR=OUT_DIR,
               PYTHONHASHSEED=os.environ.get('PYTHONHASHSEED', '0'), PYTHONDONTWRITEBYTECODE='1')
    cmd = [sys.executable, '-O', '-B', '-X', 'faulthandler', main_py, mod.PROPERTY, '--tier', tier, '--seed', str(seed),
           '--root', root, '--budget', '%.1f' % max(2.0, 0.15 * budget_s), '--min-runs', str(max(200, min_runs // 8)),
           '--workers', str(workers)]
    try:
        p = subprocess.run(cmd, env=env, capture_output=True, text=True, timeout=max(900, 6 * budget_s))
    except subprocess.TimeoutExpired:
        return 2, {'tail': 'timed out', 'timed_out': True, 'runs': 0}
    finally:
        import shutil
        shutil.rmtree(tmp, ignore_errors=True)
    info = {'exit': p.returncode, 'runs': 0}
    for line in p.stdout.splitlines():
        if line.startswith('violation class=') or line.startswith('VIOLATION '):
            print(line + ('  [under python -O]' if line.startswith('violation class=') else ''))
        elif line.startswith(mod.PROPERTY + ': ') and ' runs (' in line:
            try:
                info['runs'] = int(line.split(': ', 1)[1].split(' runs', 1)[0])
            except ValueError:
                pass
    if p.returncode == 2:
        info['tail'] = (p.stdout + p.stderr)[-600:]
    return p.returncode, info


def _clip(obj, limit=300):
    """Shorten very long strings / lists inside a sample so evidence files stay readable."""
    if isinstance(obj, str):
        return obj if len(obj) <= limit else obj[:limit] + '...(%d chars in all)' % len(obj)
    if isinstance(obj, (bytes, bytearray)):
        return _clip(bytes(obj).hex(), limit)
    if isinstance(obj, dict):
        return {k: _clip(v, limit) for k, v in obj.items()}
    if isinstance(obj, (list, tuple)):
        out = [_clip(v, limit) for v in obj[:60]]
        if len(obj) > 60:
            out.append('...(%d items in all)' % len(obj))
        return out
    return obj


def write_evidence(mod, tier, seed, total, nfixed, wall, nreported, nviol, known_ids, workers):
    os.makedirs(EVID_DIR, exist_ok=True)
    runs = total['runs']
    samples = [_clip(mod.describe_case(c) if hasattr(mod, 'describe_case') else c)
               for c in total['samples'][:4]]
    if not samples:
        fc = mod.fixed_cases(tier)
        samples = [_clip(mod.describe_case(fc[0]) if hasattr(mod, 'describe_case') else fc[0])] if len(fc) else []
    cov = {
        'evaluations': runs,
        'distinct_nontrivial': len(total['nontrivial']),
        'rule': mod.RULE,
        'samples': samples,
        'runs_fixed_floor': nfixed,
        'runs_seeded': runs - nfixed,
        'seeds': 'VERIF_SEED=%d, run indices 0..%d (each run owns PRNG mix(seed, crc32(%s), index))'
                 % (seed, max(0, runs - nfixed - 1), mod.PROPERTY),
        'runs_per_hour': int(runs / wall * 3600) if wall > 0 else 0,
        'workers': workers,
        'steps': total['steps'],
        'simulated_time': {'unit': mod.SIM_TIME_UNIT, 'total': round(total['sim_time'], 6)},
        'faults_fired': dict(sorted(total['faults'].items())),
        'probes': dict(sorted(total['probes'].items())),
        'components': mod.COMPONENTS,
        'violating_runs': nviol,
        'known_findings_seen': known_ids,
        'exhaustive': False,
    }
    for k, v in sorted(total['extra'].items()):
        cov.setdefault(k, v)
    doc = {'property_id': mod.PROPERTY, 'tier': tier, 'seed': seed, 'level': mod.LEVEL,
           'coverage': cov, 'assumptions': mod.ASSUMPTIONS, 'wall_s': round(wall, 3),
           'violations': nreported}
    path = os.path.join(EVID_DIR, mod.PROPERTY + '.json')
    tmp = path + '.tmp'
    with open(tmp, 'w') as fh:
        fh.write(json.dumps(doc, indent=1, sort_keys=True, default=core._json_default))
        fh.write('\n')
    os.replace(tmp, path)


def selftest(mod, tier, seed, root, n=200):
    """Determinism and reach self-test (DESIGN 2.3): exit 0 ok, 2 harness error."""
    global _MOD, _TIER, _SEED
    _MOD, _TIER, _SEED = mod, tier, seed
    print('selftest %s: %d seeds, same process twice, fresh interpreters under two hash seeds, 1 vs 16 workers'
          % (mod.PROPERTY, n), flush=True)
    try:
        a = digests_local(mod, seed, tier, n)
        b = digests_local(mod, seed, tier, n)
        bad = [i for i in a if a[i] != b[i]]
        if bad:
            raise HarnessError('same process, same seed: digests differ for runs %r' % bad[:5])
        for hs in (12345, 99):
            f = _fresh_interpreter_digests(mod.PROPERTY, seed, tier, n, root, hashseed=hs)
            bad = [i for i in a if a[i] != f[i]]
            if bad:
                raise HarnessError('fresh interpreter PYTHONHASHSEED=%d: digests differ for runs %r' % (hs, bad[:5]))
        for workers in (1, 16):
            got = {}
            for summ in _pool_run([('seeded', s0, 20, n) for s0 in range(0, n, 20)], workers):
                got.update(summ['digests'])
            bad = [i for i in a if a[i] != got.get(i)]
            if bad:
                raise HarnessError('%d workers: digests differ for runs %r' % (workers, bad[:5]))
        print('determinism: %d seeds x 6 executions agree' % n)
        # history independence: a run's event log must not depend on what the process executed before it
        # (garbage-collector finalizers, module-level memos, leaked patches): each worker executes a block
        # forwards, then backwards, and compares
        hist_n = int(getattr(mod, 'SELFTEST_HISTORY_RUNS', 600))
        bad, done = [], 0
        ctx = multiprocessing.get_context('fork')
        with cf.ProcessPoolExecutor(max_workers=16, mp_context=ctx) as ex:
            for r in ex.map(_history_block, [7919 * k for k in range(16)], [hist_n] * 16):
                if 'error' in r:
                    raise HarnessError(r['error'])
                bad += r['bad']
                done += r['n']
        if bad:
            raise HarnessError('history dependence: runs %r give another event log when executed after other runs' % bad[:5])
        print('history independence: %d runs executed forwards then backwards in one process: identical event logs' % done)
        orc = getattr(mod, 'oracle_selftest', None)
        if orc is not None:
            print('oracle: ' + orc())
        fid = getattr(mod, 'fidelity_selftest', None)
        if fid is not None:
            msg = fid(seed)
            print('stub fidelity: ' + msg)
        # reach: required probes must be hit in a short batch
        req = getattr(mod, 'REQUIRED_PROBES', [])
        if req:
            total = _summ_new()
            fixed_n = len(mod.fixed_cases(tier))
            jobs = [('fixed', s0, min(200, fixed_n - s0), 0) for s0 in range(0, min(fixed_n, 4000), 200)]
            jobs += [('seeded', s0, 200, 0) for s0 in range(0, 6000, 200)]
            for summ in _pool_run(jobs, 16):
                _merge(total, summ)
            missing = [p for p in req if not (total['probes'].get(p) or total['faults'].get(p))]
            if missing:
                raise HarnessError('probes never reached in %d runs: %r (the workload mix must change)'
                                   % (total['runs'], missing))
            print('reach: all %d required probes hit in %d runs' % (len(req), total['runs']))
        mut = getattr(mod, 'SELFTEST_MUTANT', None)
        if mut:
            # sensitivity: break the property on purpose in a scratch copy, the quick check must fail
            p = subprocess.run([sys.executable, '-B', os.path.join(VERIF_DIR, 'tools', 'mutants.py'),
                                mod.PROPERTY, mut, '--budget', '5'], capture_output=True, text=True, timeout=900)
            line = [l for l in p.stdout.splitlines() if l.startswith('{')]
            res = json.loads(line[0]) if line else {}
            if res.get('exit') != 1:
                raise HarnessError('sensitivity: seeded mutant %r was NOT detected (%r)' % (mut, res or p.stdout[-300:]))
            print('sensitivity: mutant %r applied to a scratch copy is detected (%s) in %.0fs'
                  % (mut, ','.join(res.get('classes', [])), res.get('wall_s', 0)))
    except HarnessError as e:
        print('HARNESS-ERROR %s' % e, flush=True)
        return 2
    print('selftest %s ok' % mod.PROPERTY)
    return 0
