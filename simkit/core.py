"""simkit.core -- seeds, event log, violations, ddmin.

One integer decides everything: every run derives a private random.Random from
(VERIF_SEED, property id, run index) through a fixed SplitMix64 mixer.  No
hash(), no os.urandom, no clock is ever consulted on a path that influences a
simulated execution.
"""
import hashlib
import json
import random
import zlib

MASK = (1 << 64) - 1


def splitmix64(x):
    x = (x + 0x9E3779B97F4A7C15) & MASK
    z = x
    z = ((z ^ (z >> 30)) * 0xBF58476D1CE4E5B9) & MASK
    z = ((z ^ (z >> 27)) * 0x94D049BB133111EB) & MASK
    return z ^ (z >> 31)


def mix(*ints):
    h = 0x243F6A8885A308D3
    for i in ints:
        h = splitmix64((h ^ (int(i) & MASK)) & MASK)
    return h


def prop_tag(prop):
    return zlib.crc32(prop.encode('ascii'))


def rng_for(seed, prop, run, stream=0):
    """The PRNG owning run number *run* of property *prop* under VERIF_SEED *seed*."""
    return random.Random(mix(seed, prop_tag(prop), run, stream))


def canonical(obj):
    """Canonical JSON text (sorted keys, no whitespace); bytes become hex."""
    return json.dumps(obj, sort_keys=True, separators=(',', ':'),
                      default=_json_default, ensure_ascii=True)


def _json_default(o):
    if isinstance(o, (bytes, bytearray)):
        return {'__bytes__': bytes(o).hex()}
    if isinstance(o, (set, frozenset)):
        return sorted(o, key=repr)
    if isinstance(o, tuple):
        return list(o)
    return repr(o)


def h64(obj):
    """Stable 64-bit hash of a JSON-able object (never Python's hash())."""
    d = hashlib.blake2b(canonical(obj).encode('ascii'), digest_size=8).digest()
    return int.from_bytes(d, 'big')


class EventLog:
    """Append-only log of everything the simulator decided or observed."""
    __slots__ = ('events', '_h', 'keep')

    def __init__(self, keep=True):
        self.events = [] if keep else None
        self.keep = keep
        self._h = hashlib.blake2b(digest_size=16)

    def add(self, *ev):
        s = repr(ev)
        self._h.update(s.encode('utf-8', 'backslashreplace'))
        self._h.update(b'\n')
        if self.keep:
            self.events.append(ev)

    def digest(self):
        return self._h.hexdigest()

    def __len__(self):
        return len(self.events) if self.keep else 0


class Outcome:
    """Result of executing one explicit case."""
    __slots__ = ('violation', 'digest', 'steps', 'sim_time', 'faults', 'probes',
                 'nontrivial', 'extra', 'known')

    def __init__(self):
        self.violation = None     # None or dict(class=..., step=..., detail=..., sig=...)
        self.digest = ''
        self.steps = 0
        self.sim_time = 0.0
        self.faults = {}          # kind -> times fired
        self.probes = {}          # name -> times reached
        self.nontrivial = []      # 64-bit hashes of distinct non-trivial cases
        self.extra = {}
        self.known = []           # known-finding ids this case exhibited (not violations)

    def fault(self, kind, n=1):
        self.faults[kind] = self.faults.get(kind, 0) + n

    def probe(self, name, n=1):
        self.probes[name] = self.probes.get(name, 0) + n

    def fail(self, cls, step, detail, **sig):
        if self.violation is None:
            self.violation = {'class': cls, 'step': step, 'detail': str(detail)[:2000],
                              'sig': dict(sig, **{'class': cls})}
        return self.violation


def viol_key(v):
    """What 'the same violation' means while minimising: class + signature."""
    return canonical(v['sig'])


def ddmin(items, test, max_tests=2000):
    """Zeller's ddmin over a list.  test(sublist) -> True iff still failing.

    Returns a 1-minimal sublist (w.r.t. the budget).  Deterministic."""
    items = list(items)
    n = 2
    tests = [0]

    def t(x):
        tests[0] += 1
        return tests[0] <= max_tests and test(x)

    while len(items) >= 2:
        chunk = max(1, len(items) // n)
        subsets = [items[i:i + chunk] for i in range(0, len(items), chunk)]
        reduced = False
        for i in range(len(subsets)):
            comp = [x for j, s in enumerate(subsets) if j != i for x in s]
            if t(comp):
                items = comp
                n = max(n - 1, 2)
                reduced = True
                break
        if not reduced:
            if n >= len(items):
                break
            n = min(len(items), n * 2)
        if tests[0] > max_tests:
            break
    if len(items) == 1 and t([]):
        items = []
    return items


def merge_counts(dst, src):
    for k, v in src.items():
        dst[k] = dst.get(k, 0) + v
    return dst


class Unsimulated(BaseException):
    """The code under test used a facility the simulator does not model (e.g. pathlib, mkstemp,
    socket.makefile).  The harness cannot judge such an implementation: this is reported as a
    harness error (exit 2), never as a VIOLATION."""
