"""Generic shrink passes over JSON-able case dicts.  Every pass keeps a change only
if ``fails(candidate)`` says the same violation (class + signature) persists."""
from .core import ddmin


def shrink_list_field(case, field, fails, min_len=0):
    items = case.get(field)
    if not items or len(items) <= min_len:
        return case

    def test(sub):
        if len(sub) < min_len:
            return False
        c = dict(case)
        c[field] = sub
        return fails(c)

    small = ddmin(items, test)
    if len(small) < len(items):
        c = dict(case)
        c[field] = small
        return c
    return case


def shrink_hex_field(case, field, fails):
    data = bytes.fromhex(case[field])
    if not data:
        return case

    def test(sub):
        c = dict(case)
        c[field] = bytes(sub).hex()
        return fails(c)

    small = ddmin(list(data), test)
    if len(small) < len(data):
        c = dict(case)
        c[field] = bytes(small).hex()
        return c
    return case


def try_set(case, updates, fails):
    if all(case.get(k) == v for k, v in updates.items()):
        return case
    c = dict(case)
    c.update(updates)
    return c if fails(c) else case


def zero_gaps(case, field, fails):
    """Set the first element (a delay) of each [gap, n] pair to 0 where possible."""
    items = [list(x) for x in case.get(field, [])]
    if not any(x[0] for x in items):
        return case
    allz = [[0.0] + x[1:] for x in items]
    c = dict(case)
    c[field] = allz
    if fails(c):
        return c
    cur = items
    for i in range(len(cur)):
        if cur[i][0]:
            cand = [list(x) for x in cur]
            cand[i][0] = 0.0
            c = dict(case)
            c[field] = cand
            if fails(c):
                cur = cand
    c = dict(case)
    c[field] = cur
    return c


def shrink_nested_list(case, path, fails):
    """ddmin over a list reached through a sequence of keys/indices."""
    def get(c):
        for p in path:
            c = c[p]
        return c

    def put(c, val):
        import copy
        c2 = copy.deepcopy(c)
        t = c2
        for p in path[:-1]:
            t = t[p]
        t[path[-1]] = val
        return c2

    items = get(case)
    if not items:
        return case
    small = ddmin(items, lambda sub: fails(put(case, sub)))
    if len(small) < len(items):
        return put(case, small)
    return case
