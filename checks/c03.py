"""C03 -- concurrent LRI/LRU operations are atomic and never corrupt the cache.

Engine: threadsim.  2-4 logical threads (real threads, exactly one runnable) run
programs of cache operations on one shared LRI/LRU; the simulator pre-empts at
every bytecode of boltons/cacheutils.py and at every lock operation, chooses the
interleaving from the case's schedule, and judges the recorded history by
linearizability (including final contents and eviction order) against
models/lru_model.py.
"""
from simkit import core, shrinkers
from simkit.core import ddmin
from engines import threadsim
from models import lru_model as M
from models import linearize
from . import cachelib as L

PROPERTY = 'C03'
ENGINE = 'threadsim'
LEVEL = 'exploration'
SOURCE_FILES = ['boltons/cacheutils.py']
SIM_TIME_UNIT = 'scheduler steps (one per pre-emption point: bytecode of cacheutils, lock operation, op invoke/return)'
SHRINK_BUDGET = 30000
TIERS = {
    'quick': {'budget_s': 30, 'min_runs': 6000, 'block': 100, 'fixed_block': 400},
    'thorough': {'budget_s': 900, 'min_runs': 400000, 'block': 400, 'fixed_block': 400},
}
RULE = ('A case is (class, max_size 1-4, on_miss, preload, 2-4 thread programs of 1-5 operations each with '
        'unique written values, schedule policy + seed); the schedule policy is uniform random switching '
        '(p in 0.02..0.5), PCT priorities (d=1..3), pre-emption bounded (1-2 forced switches) or sequential. '
        'Floor: for every ordered pair of 17 operations on a full 2-slot cache, both classes, thread A is '
        'pre-empted once at every one of its yield points and thread B runs in between. Non-trivial: at least '
        'one context switch was taken while some thread was inside an operation (between its invoke and '
        'return). distinct = distinct (programs, switch signature) hashes, switch signature = sequence of '
        '(from, code name, bytecode offset, to).')
COMPONENTS = {'real': ['boltons.cacheutils.LRI', 'boltons.cacheutils.LRU', 'CPython dict', 'real threading.Thread per logical thread'],
              'stub': ['the lock (engines.threadsim.SimRLock)', 'the thread scheduler (baton passing; exactly one thread runnable)',
                       'on_miss callbacks']}
ASSUMPTIONS = ['CPython 3.12 with the GIL: C-level dict operations on int/str/tuple keys are atomic; pre-emption is possible between any two bytecodes of cacheutils.py (a superset of where the eval loop really switches)',
               'hit/miss/soft-miss counters are not part of the concurrent specification (get() counts outside the lock)',
               'popitem may return any present pair; copy() must equal contents and order at its linearisation point',
               'known finding C03-F1: lock-free inherited dict readers (len, in, dict(), list()) may observe a prefix of the dict-level steps of one in-flight locked operation; everything else is strict',
               'histories are capped at 16 operations so the linearizability search stays exact']


SELFTEST_MUTANT = 'nolock-setitem'
REQUIRED_PROBES = ['lock_contended', 'switch_at_bytecode_inside_cacheutils', 'switch_inside_ring_splice',
                   'lockfree_read_saw_transient_state']


def setup(root):
    L.setup(root)


# ------------------------------------------------------------------------------
# generation

def _gen_sched(rng, nops):
    sc = _gen_sched0(rng, nops)
    if rng.random() < 0.2:
        sc['raw'] = True        # threads started behind the threading module's back (_thread, C extensions)
    return sc


def _gen_sched0(rng, nops):
    horizon = rng.choice([60, 150, 400]) * max(1, nops // 2)
    r = rng.random()
    seed = rng.getrandbits(32)
    if r < 0.45:
        return {'kind': 'random', 'seed': seed, 'p': rng.choice([0.02, 0.05, 0.1, 0.3, 0.5])}
    if r < 0.65:
        return {'kind': 'pct', 'seed': seed, 'd': rng.choice([1, 2, 3]), 'horizon': horizon}
    if r < 0.95:
        return {'kind': 'bounded', 'seed': seed, 'k': rng.choice([1, 2, 3]), 'horizon': horizon,
            'handoff': rng.random() < 0.5}
    return {'kind': 'sequential', 'seed': seed}


def _gen_ops(rng, keys, n, tag):
    ops = []
    for i in range(n):
        r = rng.random()
        k = rng.choice(keys)
        v = '%s.%d' % (tag, i)
        shared = rng.random() < 0.08     # a value that is the very object some caller passes as a default
        if r < 0.28:
            ops.append(['set', k, {'k': 'n'} if shared else v])
        elif r < 0.42:
            ops.append(['get', k])
        elif r < 0.48:
            ops.append(['getd', k, {'k': 'n'} if shared else 'dflt'])
        elif r < 0.54:
            ops.append(['setdefault', k, v])
        elif r < 0.60:
            ops.append(['del', k])
        elif r < 0.64:
            ops.append(['pop', k])
        elif r < 0.66:
            ops.append(['popd', k, {'k': 'n'} if rng.random() < 0.3 else 'dflt'])
        elif r < 0.69:
            ops.append(['popitem'])
        elif r < 0.71:
            ops.append(['clear'])
        elif r < 0.77:
            if isinstance(keys[0], str) and rng.random() < 0.4:
                # positional part and keyword part in one call (string keys)
                form = rng.choice(['both', 'bothdict'])
                ops.append(['update', [[rng.choice(keys), '%s.%d' % (v, j)] for j in range(rng.randint(1, 2))], form,
                            [[rng.choice(keys), '%s.k%d' % (v, j)] for j in range(rng.randint(1, 2))]])
            else:
                ops.append(['update', [[rng.choice(keys), '%s.%d' % (v, j)] for j in range(rng.randint(1, 3))],
                            rng.choice(['dict', 'pairs', 'iter'])])
        elif r < 0.785:
            # a generator argument that reads the cache while update() consumes it (one atomic read-modify-write)
            ops.append(['update_rmw', [rng.choice(keys) for _ in range(rng.randint(1, 2))], '%s.r' % v])
        elif r < 0.80:
            ops.append(['ior', [[rng.choice(keys), '%s.%d' % (v, j)] for j in range(rng.randint(1, 2))]])
        elif r < 0.85:
            ops.append(['in', k])
        elif r < 0.89:
            ops.append(['len'] if rng.random() < 0.8 else ['repr'])
        elif r < 0.92:
            ops.append(['dict'])
        elif r < 0.94:
            ops.append(['keys'] if rng.random() < 0.7 else ['iter_hold'])
        elif r < 0.96:
            q = rng.random()
            if q < 0.45:
                ops.append(['eq', [[rng.choice(keys), 'x']]])
            elif q < 0.8:
                ops.append(['ne', [[rng.choice(keys), 'x']]])
            else:
                # an update whose input turns out to be malformed after some good pairs (the call raises)
                ops.append(['update_bad', [[rng.choice(keys), '%s.b%d' % (v, j)] for j in range(rng.randint(0, 2))]])
        else:
            ops.append(['copy'])
    return ops


def _gen_pair(rng):
    """Two shared caches used together: every operation names the cache it is applied to; 'x*' operations
    take the other cache as their argument (a == b, a.update(b), a |= b)."""
    cls = [rng.choice(['LRI', 'LRU']) for _ in range(2)]
    max_size = [rng.choice([1, 2, 3]) for _ in range(2)]
    keys = [1, 2, 3, 4][:rng.randint(2, 4)]
    threads = []
    for t in range(rng.choice([2, 2, 3])):
        ops = []
        for i in range(rng.randint(1, 3)):
            which = rng.randrange(2)
            r = rng.random()
            if r < 0.5:
                ops.append([rng.choice(['xupdate', 'xupdate', 'xior', 'xeq', 'xne']), which])
            else:
                ops.append(['on', which, _gen_ops(rng, keys, 1, 't%d.%d' % (t, i))[0]])
        threads.append(ops)
    preload = [[[keys[i % len(keys)], 'p%d.%d' % (w, i)] for i in range(rng.randint(0, max_size[w]))] for w in range(2)]
    nops = sum(len(t) for t in threads)
    return {'mode': 'pair', 'cls': cls, 'max_size': max_size, 'on_miss': 'none', 'preload': preload, 'threads': threads,
            'sched': _gen_sched(rng, nops)}


def _gen_snapshot(rng):
    """A shared cache worked on by one or two threads, and a thread that copies it into a cache of its own with
    update()/|=/values=: what it gets must be the shared cache as it was between two operations."""
    cls = rng.choice(['LRI', 'LRU'])
    max_size = rng.choice([1, 2, 2, 3])
    keys = [1, 2, 3, 4][:rng.randint(2, 4)]
    writers = [[op for op in _gen_ops(rng, keys, rng.randint(1, 3), 'w%d' % t) if op[0] != 'copy'] or [['set', keys[0], 'w%d.x' % t]]
               for t in range(rng.choice([1, 1, 2]))]
    preload = [[keys[i % len(keys)], 'p%d' % i] for i in range(rng.randint(0, max_size))]
    nops = sum(len(t) for t in writers) + 1
    return {'mode': 'snapshot', 'cls': cls, 'max_size': max_size, 'on_miss': 'none', 'preload': preload, 'threads': writers,
            'how': rng.choice(['update', 'ior', 'values']), 'own_cls': rng.choice(['LRI', 'LRU']), 'sched': _gen_sched(rng, nops)}


def gen_case(rng, tier):
    r0 = rng.random()
    if r0 < 0.06:
        return _gen_pair(rng)
    if r0 < 0.10:
        return _gen_snapshot(rng)
    cls = rng.choice(['LRI', 'LRU'])
    max_size = rng.choice([1, 2, 2, 3, 3, 4])
    keys = rng.choice([[1, 2, 3, 4, 5], ['a', 'b', 'c', 'd', 'e']])[:rng.randint(2, 5)]
    on_miss = rng.choice(['none', 'none', 'none', 'pure', 'reent_set', 'raises'])
    nthreads = rng.choice([2, 2, 2, 3, 3, 4])
    threads = []
    budget = 14
    for t in range(nthreads):
        n = min(rng.randint(1, 5), max(1, budget - (nthreads - t - 1)))
        budget -= n
        threads.append(_gen_ops(rng, keys, n, 't%d' % t))
    npre = rng.randint(0, max_size)
    preload = [[keys[i % len(keys)], 'p%d' % i] for i in range(npre)]
    if rng.random() < 0.01:
        # scale: a big, full cache; two threads work on its oldest and newest entries and on new keys
        max_size = rng.choice([16, 40, 130, 260])
        base = list(range(1000, 1000 + max_size + 4))
        preload = [[k, 'p%d' % k] for k in base[:max_size]]
        edge = base[:2] + base[max_size - 2:max_size + 4]
        threads = [[op for op in _gen_ops(rng, edge, min(len(t), 3), 't%d' % i) if op[0] != 'copy'] or [['len']]
                   for i, t in enumerate(threads[:2])]
        if rng.random() < 0.6:
            threads[1].insert(rng.randint(0, len(threads[1])), ['repr'])     # a log line printing the whole cache
    nops = sum(len(t) for t in threads)
    if rng.random() < (0.004 if tier == 'thorough' else 0.001):
        # scale: one bulk update with very many items against short reader/writer programs
        cnt = rng.choice([300, 1030, 2100])
        max_size = rng.choice([cnt + 50, 64])
        bulk = ['update', [[5000 + i, 'a%d' % i] for i in range(cnt)], rng.choice(['pairs', 'dict'])]
        ks = [5000 + rng.randrange(cnt) for _ in range(3)] + [5000, 5000 + cnt - 1]
        other = [op for op in _gen_ops(rng, ks, 3, 't1') if op[0] not in ('copy', 'update', 'ior')] or [['len']]
        threads = [[bulk], other]
        preload = preload[:2]
        sched = {'kind': 'bounded', 'seed': rng.getrandbits(32), 'k': rng.choice([1, 2]), 'horizon': 90 * cnt,
                 'handoff': rng.random() < 0.7}
        return {'cls': cls, 'max_size': max_size, 'on_miss': 'none', 'preload': preload, 'threads': threads,
                'sched': sched}
    return {'cls': cls, 'max_size': max_size, 'on_miss': on_miss, 'preload': preload,
            'threads': threads, 'sched': _gen_sched(rng, nops)}


SWEEP_OPS = [
    ['set', 1, 'A'], ['set', 3, 'B'], ['get', 1], ['get', 3], ['getd', 3, 'dflt'], ['setdefault', 3, 'C'],
    ['del', 1], ['pop', 2], ['popitem'], ['clear'], ['update', [[3, 'D'], [1, 'E']], 'pairs'],
    ['ior', [[3, 'F']]], ['in', 1], ['len'], ['dict'], ['eq', [[1, 'p0'], [2, 'p1']]], ['copy'],
    # (the operand of != is the state *between* the eviction and the insertion of an evicting insert into the
    # preloaded cache: a comparison that reads the cache without the lock answers False there, and True in every
    # sequential order)
    ['update', [[3, 'G']], 'both', [['kw', 'H']]], ['ne', [[2, 'p1']]],
    ['update_rmw', [1, 3], 'R'],
]
_FIXED = {}


def _retag(op, tag):
    op = list(op)
    if op[0] in ('set', 'setdefault'):
        op[2] = tag + op[2]
    elif op[0] == 'update_rmw':
        op[2] = tag + op[2]
    elif op[0] in ('update', 'ior', 'update_bad'):
        op[1] = [[k, tag + v] for k, v in op[1]]
        if len(op) > 3:
            op[3] = [[k, tag + v] for k, v in op[3]]
    return op


def _steps_alone(cls, on_miss, op):
    case = {'cls': cls, 'max_size': 2, 'on_miss': on_miss, 'preload': [[1, 'p0'], [2, 'p1']],
            'threads': [[op]], 'sched': {'kind': 'sequential', 'seed': 0}}
    return run_case(case).steps


class _Sweep:
    """Lazy, indexable list of sweep cases (the thorough floor has ~2M entries)."""

    def __init__(self):
        self.blocks = []        # (first index, count, maker(j) -> case)
        self.n = 0

    def add(self, count, maker):
        if count > 0:
            self.blocks.append((self.n, count, maker))
            self.n += count

    def __len__(self):
        return self.n

    def __getitem__(self, i):
        import bisect
        if i < 0 or i >= self.n:
            raise IndexError(i)
        b = bisect.bisect_right([blk[0] for blk in self.blocks], i) - 1
        first, _count, maker = self.blocks[b]
        return maker(i - first)


_PRE = [[1, 'p0'], [2, 'p1']]
MUTATORS = ('set', 'get', 'getd', 'setdefault', 'del', 'pop', 'popitem', 'clear', 'update', 'ior', 'copy', 'update_bad', 'update_rmw')


def fixed_cases(tier):
    """Pre-emption-point sweep: the schedule analogue of crash-point enumeration.

    quick and thorough: for every ordered pair (a, b) of SWEEP_OPS on a full 2-slot cache, both
    classes: thread A runs a, is pre-empted once at each of its yield points k, thread B runs b.
    thorough only: for every ordered pair of mutating operations additionally every PAIR of
    pre-emption points: A pre-empted at k, B runs j steps and is pre-empted, A finishes, B finishes."""
    if tier in _FIXED:
        return _FIXED[tier]
    sw = _Sweep()
    steps = {}
    for cls in ('LRI', 'LRU'):
        for on_miss in ('none', 'pure'):
            for ia, a in enumerate(SWEEP_OPS):
                if on_miss == 'pure' and a[0] not in ('get', 'getd', 'setdefault'):
                    continue
                a1 = _retag(a, 'a')
                n = steps[(cls, on_miss, ia)] = _steps_alone(cls, on_miss, a1)
                for ib, b in enumerate(SWEEP_OPS):
                    if on_miss == 'pure' and tier == 'quick' and ib % 2:
                        continue
                    b1 = _retag(b, 'b')

                    def mk(j, cls=cls, on_miss=on_miss, a1=a1, b1=b1):
                        return {'cls': cls, 'max_size': 2, 'on_miss': on_miss, 'preload': _PRE,
                                'threads': [[a1], [b1]], 'sched': {'kind': 'explicit', 'switches': [[j + 1, 1]]}}
                    sw.add(n, mk)
    # snapshot floor: another thread copies the shared cache (update / values=) while a writer is pre-empted
    # once at each of its yield points
    for cls in ('LRI', 'LRU'):
        for ia, a in enumerate(SWEEP_OPS):
            if a[0] not in MUTATORS or a[0] in ('copy', 'get', 'getd'):
                continue
            a1 = _retag(a, 'a')
            n = steps[(cls, 'none', ia)]

            for own in ('LRI', 'LRU'):
                def mks(j, cls=cls, a1=a1, own=own):
                    return {'mode': 'snapshot', 'cls': cls, 'max_size': 2, 'on_miss': 'none', 'preload': _PRE,
                            'threads': [[a1]], 'how': 'update' if j % 2 == 0 else 'values', 'own_cls': own,
                            'sched': {'kind': 'explicit', 'switches': [[j + 1, 1]]}}
                sw.add(n, mks)
    if tier == 'thorough':
        for cls in ('LRI', 'LRU'):
            for ia, a in enumerate(SWEEP_OPS):
                if a[0] not in MUTATORS:
                    continue
                a1 = _retag(a, 'a')
                na = steps[(cls, 'none', ia)]
                for ib, b in enumerate(SWEEP_OPS):
                    if b[0] not in MUTATORS:
                        continue
                    b1 = _retag(b, 'b')
                    nb = steps[(cls, 'none', ib)]

                    def mk2(j, cls=cls, a1=a1, b1=b1, nb=nb):
                        k1, k2 = j // nb + 1, j % nb + 1
                        return {'cls': cls, 'max_size': 2, 'on_miss': 'none', 'preload': _PRE,
                                'threads': [[a1], [b1]],
                                'sched': {'kind': 'explicit', 'switches': [[k1, 1], [k1 + k2, 0]]}}
                    sw.add(na * nb, mk2)
    # scale floor: one bulk update of 1100 new keys against reads of an early and a late key of the
    # bulk, pre-empted once at 24 (quick) / 200 (thorough) evenly spaced points of the update
    for cls in ('LRI', 'LRU'):
        bulk = ['update', [[5000 + i, 'a%d' % i] for i in range(1100)], 'pairs']
        reads = [['getd', 5003, 'dflt'], ['getd', 6095, 'dflt'], ['len']]
        n = _steps_alone_cfg(cls, 1300, [[1, 'p0'], [2, 'p1']], bulk)
        pts = 10 if tier == 'quick' else 200

        def mkb(j, cls=cls, bulk=bulk, reads=reads, n=n, pts=pts):
            k = max(1, int((j // 2 + 0.5) * n / pts))
            # odd j: the waiting thread gets the lock as soon as it is released (lock hand-off)
            return {'cls': cls, 'max_size': 1300, 'on_miss': 'none', 'preload': [[1, 'p0'], [2, 'p1']],
                    'threads': [[bulk], reads],
                    'sched': {'kind': 'explicit', 'switches': [[k, 1]], 'handoff': bool(j % 2)}}
        sw.add(2 * pts, mkb)
    _FIXED[tier] = sw
    return sw


def _steps_alone_cfg(cls, max_size, preload, op):
    case = {'cls': cls, 'max_size': max_size, 'on_miss': 'none', 'preload': preload,
            'threads': [[op]], 'sched': {'kind': 'sequential', 'seed': 0}}
    return run_case(case).steps


def case_size(case):
    return sum(len(t) for t in case['threads']) + len(case['preload']) + len(case['sched'].get('switches', []))


def describe_case(case):
    return case


# ------------------------------------------------------------------------------
# execution

def _run_pair(case):
    """Two caches, cross-cache operations.  Judged for liveness and safety only (no deadlock, no leaked lock, no
    exception a sequential run could not raise, capacity, both caches usable afterwards): the sequential
    specification of models/ is per cache."""
    out = core.Outcome()
    log = core.EventLog(keep=False)
    nthreads = len(case['threads'])
    policy = threadsim.make_policy(case['sched'], nthreads)
    sched = threadsim.Scheduler(policy, log, step_cap=case.get('step_cap', 40000))
    caches = []
    for w in range(2):
        ctx = L.Ctx(sched)
        c = L.make_cache({'cls': case['cls'][w], 'max_size': case['max_size'][w], 'on_miss': 'none'}, ctx, sched)
        for k, v in case['preload'][w]:
            c[L.dk(k)] = L.dk(v)
        caches.append((c, ctx))
    results = []

    def program(tid, ops):
        def run():
            for i, op in enumerate(ops):
                sched.yield_point(('invoke', tid, i))
                me, ctx = caches[op[1]]
                other = caches[1 - op[1]][0]
                try:
                    if op[0] == 'on':
                        real, post = L.exec_op(me, op[2], ctx)
                        if post is not None:
                            real = ('ok', post())
                    elif op[0] == 'xupdate':
                        me.update(other)
                        real = ('ok', None)
                    elif op[0] == 'xior':
                        me |= other
                        real = ('ok', None)
                    elif op[0] == 'xeq':
                        real = ('ok', bool(me == other))
                    elif op[0] == 'xne':
                        real = ('ok', bool(me != other))
                    else:
                        raise AssertionError(op)
                except threadsim.SimAbort:
                    raise
                except Exception as e:
                    real = ('exc', type(e).__name__)
                sched.yield_point(('return', tid, i))
                results.append((tid, i, op, real))
                log.add('ret', tid, i, repr(real))
        return run

    for tid, ops in enumerate(case['threads']):
        sched.spawn(program(tid, ops))
    reason = sched.run()
    out.steps = sched.step
    out.sim_time = float(sched.step)
    out.extra['switches'] = [[0, sched.first]] + [[s, to] for s, _f, to, _w in sched.switches]
    if sched.contended:
        out.probe('lock_contended', sched.contended)
        out.probe('pair_lock_contended')
    if any(w[0] in ('op', 'lock') for s, f, to, w in sched.switches):
        out.nontrivial.append(core.h64(['pair', case['cls'], case['max_size'], case['threads'],
                                        [(f, to) for s, f, to, w in sched.switches]]))
    if reason == 'deadlock':
        out.fail('deadlock', sched.step, 'two caches used together, no runnable thread: %s; programs %r'
                 % (_blocked(sched), case['threads']), mode='pair')
    elif reason == 'no-progress':
        out.fail('no-progress', sched.step, 'more than %d scheduler steps' % sched.step_cap, mode='pair')
    if out.violation is None and any(l.owner is not None for l in sched.locks):
        out.fail('lock-leaked', sched.step, 'all threads finished but a cache lock is still held', mode='pair')
    if out.violation is None:
        for tid, i, op, real in results:
            if real[0] != 'exc':
                continue
            name = op[2][0] if op[0] == 'on' else op[0]
            if op[0] != 'on' and real[1] in ('RuntimeError', 'KeyError'):
                # the other cache is read through its lock-free inherited dict API while it changes: the
                # root cause recorded as C03-F1, seen through update()/|=/== instead of len()/in/list()
                out.known.append('C03-F1')
                out.probe('lockfree_read_saw_transient_state')
                continue
            if real[1] not in M.POSSIBLE_EXC.get(L.model_op(op[2])[0] if op[0] == 'on' else '', ()):
                out.fail('impossible-exception', i, 'thread %d op %r raised %s, which no sequential execution can raise'
                         % (tid, op, real[1]), exc=real[1], mode='pair')
                break
    if out.violation is None:
        for w in range(2):
            ms = case['max_size'][w]
            try:
                with threadsim.OpcodeBudget(400000):
                    pr = L.probe(caches[w][0], ms)
            except threadsim.OpcodeBudget.Exceeded:
                out.fail('cache-unusable', 0, 'probing cache %d after the threads finished did not terminate' % w, mode='pair')
                break
            if pr['len'] > ms or len(pr['items']) > ms or pr['over_capacity']:
                out.fail('capacity-exceeded', 0, 'cache %d holds %d items > max_size %d' % (w, max(pr['len'], len(pr['items'])), ms),
                         mode='pair')
                break
            if pr['error'] or pr['left'] or pr['len'] != len(pr['items']):
                out.fail('cache-unusable', 0, 'cache %d after all threads finished: probe error=%r, never evicted=%r, len=%d, items=%r'
                         % (w, pr['error'], pr['left'], pr['len'], pr['items']), mode='pair')
                break
    out.digest = log.digest()
    return out


def _run_snapshot(case):
    out = core.Outcome()
    log = core.EventLog(keep=False)
    writers = case['threads']
    nthreads = len(writers) + 1
    sched = threadsim.Scheduler(threadsim.make_policy(case['sched'], nthreads), log, step_cap=case.get('step_cap', 40000))
    ctx = L.Ctx(sched)
    spec = M.Spec(case['cls'], case['max_size'], 'none')
    shared = L.make_cache({'cls': case['cls'], 'max_size': case['max_size'], 'on_miss': 'none'}, ctx, sched)
    state = spec.initial()
    for k, v in case['preload']:
        shared[L.dk(k)] = L.dk(v)
        state = M.apply(spec, state, ('set', L.dk(k), L.dk(v)))[0][1]
    ctx2 = L.Ctx(sched)
    mine = L.make_cache({'cls': case.get('own_cls', 'LRI'), 'max_size': 64, 'on_miss': 'none'}, ctx2, sched)
    got = {}

    def writer(tid, ops):
        def run():
            for i, op in enumerate(ops):
                sched.yield_point(('invoke', tid, i))
                L.exec_op(shared, op, ctx)
                sched.yield_point(('return', tid, i))
        return run

    def reader():
        sched.yield_point(('invoke', nthreads - 1, 0))
        try:
            if case['how'] == 'update':
                mine.update(shared)
                got['items'] = dict(mine)
            elif case['how'] == 'ior':
                c = mine
                c |= shared
                got['items'] = dict(mine)
            else:
                import threading
                saved = (threading.RLock, threading.Lock)
                threading.RLock = lambda *a, **k: threadsim.SimRLock(sched)
                threading.Lock = lambda *a, **k: threadsim.SimLock(sched)
                try:
                    got['items'] = dict(getattr(L.cu, case.get('own_cls', 'LRI'))(max_size=64, values=shared))
                finally:
                    threading.RLock, threading.Lock = saved
        except threadsim.SimAbort:
            raise
        except Exception as e:
            got['exc'] = type(e).__name__
        sched.yield_point(('return', nthreads - 1, 0))

    for tid, ops in enumerate(writers):
        sched.spawn(writer(tid, ops))
    sched.spawn(reader)
    reason = sched.run()
    out.steps = sched.step
    out.sim_time = float(sched.step)
    if reason == 'deadlock':
        out.fail('deadlock', sched.step, 'copying a shared cache while it is used: no runnable thread (%s)' % _blocked(sched), mode='snapshot')
    elif reason == 'no-progress':
        out.fail('no-progress', sched.step, 'more than %d scheduler steps' % sched.step_cap, mode='snapshot')
    elif 'exc' in got:
        # (since the repair of C03-F2 update() reads another cache under that cache's lock, in one step: an iteration
        # error here is no longer the lock-free reader family of C03-F1)
        out.fail('impossible-exception', 0, '%s.update() (%s) from a shared %s raised %s'
                 % (case.get('own_cls', 'LRI'), case['how'], case['cls'], got['exc']), mode='snapshot', exc=got['exc'])
    else:
        # every state the shared cache can be in between two of the writers' operations (each is atomic)
        allowed = []
        seen = set()
        frontier = [(tuple([0] * len(writers)), state)]
        while frontier:
            done, st = frontier.pop()
            key = (done, st[0])
            if key in seen:
                continue
            seen.add(key)
            allowed.append(M.contents(st))
            for t, ops in enumerate(writers):
                if done[t] < len(ops):
                    for _o, st2, _v, _c in M.apply(spec, st, L.model_op(ops[done[t]])):
                        frontier.append((done[:t] + (done[t] + 1,) + done[t + 1:], st2))
        if got.get('items') not in allowed and case['how'] == 'values' and got.get('items') == {}:
            # LRI(values=shared) first asks `if values:` -- len() of the shared cache, one of the lock-free inherited
            # readers of C03-F1 -- and copies nothing when a 1-slot cache is caught between eviction and insertion
            out.known.append('C03-F1')
            out.probe('lockfree_read_saw_transient_state')
        elif got.get('items') not in allowed:
            out.fail('torn-snapshot', 0, '%s of a shared %s(max_size=%d) gave %r while %r ran: the cache never held exactly that '
                     'between two operations (states: %r)' % (case['how'], case['cls'], case['max_size'], got.get('items'),
                                                               writers, allowed[:8]), mode='snapshot')
        elif sched.switches:
            out.probe('snapshot_of_shared_cache_under_writes')
            out.nontrivial.append(core.h64(['snapshot', case['cls'], case['max_size'], writers, case['how'],
                                            [(f, t) for _s, f, t, _w in sched.switches]]))
    out.extra['switches'] = [[0, sched.first]] + [[s_, to] for s_, _f, to, _w in sched.switches]
    out.digest = log.digest()
    return out


def run_case(case):
    if case.get('mode') == 'pair':
        return _run_pair(case)
    if case.get('mode') == 'snapshot':
        return _run_snapshot(case)
    out = core.Outcome()
    log = core.EventLog(keep=False)
    nthreads = len(case['threads'])
    policy = threadsim.make_policy(case['sched'], nthreads)
    sched = threadsim.Scheduler(policy, log, step_cap=case.get('step_cap', 20000 + 400 * case['max_size']
                                                     + 300 * sum(len(o[1]) for t in case['threads'] for o in t if o[0] in ('update', 'ior'))))
    ctx = L.Ctx(sched)
    spec = M.Spec(case['cls'], case['max_size'], case.get('on_miss', 'none'))
    c = L.make_cache(case, ctx, sched)
    state = spec.initial()
    for k, v in case['preload']:
        c[L.dk(k)] = L.dk(v)
        state = M.apply(spec, state, ('set', L.dk(k), L.dk(v)))[0][1]
    hist = [[] for _ in range(nthreads)]
    in_op = [0]

    def program(tid, ops):
        def run():
            for i, op in enumerate(ops):
                inv = sched.yield_point(('invoke', tid, i))
                in_op[0] += 1
                rec = {'op': L.model_op(op), 'inv': inv, 'ret': None, 'out': None, 'jop': op}
                hist[tid].append(rec)
                real, post = L.exec_op(c, op, ctx)
                in_op[0] -= 1
                rec['ret'] = sched.yield_point(('return', tid, i))
                if post is not None:
                    real = ('ok', post())
                rec['out'] = real
                log.add('ret', tid, i, repr(real))
        return run

    for tid, ops in enumerate(case['threads']):
        sched.spawn(program(tid, ops))
    reason = sched.run()
    out.steps = sched.step
    out.sim_time = float(sched.step)
    out.extra['switches'] = [[0, sched.first]] + [[s, to] for s, _f, to, _w in sched.switches]
    if sched.contended:
        out.probe('lock_contended', sched.contended)
    if sched.switch_in_traced:
        out.probe('switch_at_bytecode_inside_cacheutils', sched.switch_in_traced)
    mid = [1 for s, f, to, w in sched.switches if w[0] in ('op', 'lock', 'on_miss')]
    spl = [1 for s, f, to, w in sched.switches if w[0] == 'op' and w[1].endswith('_ll')]
    if spl:
        out.probe('switch_inside_ring_splice', len(spl))
    if mid:
        sig = [(f, w[1] if len(w) > 1 else '', w[2] if len(w) > 2 else 0, to) for s, f, to, w in sched.switches]
        out.nontrivial.append(core.h64([case['cls'], case['max_size'], case['threads'], sig]))

    if reason == 'deadlock':
        held = [t.tid for t in sched.threads if t.done and any(l.owner is t for l in sched.locks)]
        out.fail('deadlock', sched.step, 'no runnable thread: %s%s'
                 % (_blocked(sched), ('; finished thread(s) %r still hold a lock' % held) if held else ''))
    elif reason == 'no-progress':
        out.fail('no-progress', sched.step, 'more than %d scheduler steps' % sched.step_cap)
    if out.violation is None and any(l.owner is not None for l in sched.locks):
        out.fail('lock-leaked', sched.step, 'all threads finished but a cache lock is still held: the cache is unusable '
                 'for every other thread')
    if out.violation is None:
        _judge(case, spec, state, hist, c, out)
    out.digest = log.digest()
    return out


def _blocked(sched):
    return ', '.join('T%d %s' % (t.tid, 'done' if t.done else ('blocked' if t.blocked_on is not None else 'ready'))
                     for t in sched.threads)


def _judge(case, spec, init_state, hist, c, out):
    ms = case['max_size']
    nrec = 0
    for tid, recs in enumerate(hist):
        for i, r in enumerate(recs):
            nrec += 1
            if r['out'] is None:
                out.fail('harness-error', i, 'operation without outcome')
                return
            name = r['op'][0]
            if r['out'][0] == 'exc':
                if r['out'][1] not in M.POSSIBLE_EXC.get(name, ()):
                    out.fail('impossible-exception', i,
                             'thread %d op %r raised %s, which no sequential execution can raise'
                             % (tid, r['jop'], r['out'][1]), exc=r['out'][1])
                    return
            elif name == 'len' and r['out'][1] > ms:
                out.fail('capacity-exceeded', i, 'thread %d observed len == %d > max_size %d' % (tid, r['out'][1], ms))
                return
            elif name == 'dict' and len(r['out'][1]) > ms:
                out.fail('capacity-exceeded', i, 'thread %d observed %d items > max_size %d' % (tid, len(r['out'][1]), ms))
                return
    # the cache must still be usable: probe contents and eviction order via the public API
    try:
        with threadsim.OpcodeBudget(400000 + 600 * ms * ms):
            pr = L.probe(c, ms)
    except threadsim.OpcodeBudget.Exceeded:
        out.fail('cache-unusable', 0, 'probing the cache after the threads finished did not terminate')
        return
    if pr['len'] > ms or len(pr['items']) > ms or pr['over_capacity']:
        out.fail('capacity-exceeded', 0, 'after all threads finished the cache holds %d items > max_size %d'
                 % (max(pr['len'], len(pr['items'])), ms))
        return
    if pr['error'] or pr['left'] or pr['len'] != len(pr['items']):
        out.fail('cache-unusable', 0,
                 'after all threads finished: probe error=%r, keys that never get evicted=%r, len=%d, items=%r, order=%r'
                 % (pr['error'], pr['left'], pr['len'], pr['items'], pr['order']))
        return
    if nrec > 16:
        out.probe('history_too_long_for_linearizability')
        return
    threads = [[{'op': r['op'], 'inv': r['inv'], 'ret': r['ret'], 'out': r['out']} for r in recs] for recs in hist]
    verdict = linearize.classify(spec, threads, pr['items'], pr['order'], init_state)
    if verdict == 'strict':
        return
    if verdict == 'unknown':
        out.probe('linearizability_search_exhausted')
        return
    if verdict == 'relaxed':
        out.known.append('C03-F1')
        out.probe('lockfree_read_saw_transient_state')
        return
    out.fail('non-linearizable', 0, 'no sequential order explains this history: %s; final contents %r, eviction order %r'
             % (_fmt_hist(hist), pr['items'], pr['order']))


def _fmt_hist(hist):
    parts = []
    for tid, recs in enumerate(hist):
        parts.append('T%d[' % tid + '; '.join('%r@%s-%s -> %r' % (r['jop'], r['inv'], r['ret'], r['out']) for r in recs) + ']')
    return ' '.join(parts)


# ------------------------------------------------------------------------------
# minimisation: programs first (re-searching schedules for each candidate), then the
# explicit switch list.

def _sched_candidates(case):
    yield case['sched']
    nops = sum(len(t) for t in case['threads'])
    for s in range(24):
        yield {'kind': 'random', 'seed': s, 'p': [0.3, 0.1, 0.5][s % 3]}
    for s in range(24):
        yield {'kind': 'bounded', 'seed': s, 'k': 1 + s % 2, 'horizon': 60 * max(1, nops)}


def shrink(case, fails):
    best = [case]

    def fails_some_schedule(c):
        for sc in _sched_candidates(c):
            c2 = dict(c)
            c2['sched'] = sc
            if fails(c2):
                best[0] = c2
                return True
        return False

    def with_threads(ths):
        c = dict(best[0])
        c['threads'] = [t for t in ths if t]
        return c

    # 1. drop whole threads
    ths = list(best[0]['threads'])
    idx = ddmin(list(range(len(ths))),
                lambda keep: len(keep) >= 1 and fails_some_schedule(with_threads([ths[i] for i in keep])))
    # 2. drop operations inside each thread
    for t in range(len(best[0]['threads'])):
        cur = best[0]['threads']
        if t >= len(cur):
            break

        def test(sub, t=t):
            ths = list(best[0]['threads'])
            if t >= len(ths):
                return False
            ths[t] = sub
            if not sub:
                return False
            return fails_some_schedule(with_threads(ths))
        ddmin(list(cur[t]), test)
    # 3. preload, on_miss, max_size
    def test_pre(sub):
        c = dict(best[0])
        c['preload'] = sub
        return fails_some_schedule(c)
    ddmin(list(best[0]['preload']), test_pre)
    for upd in ({'on_miss': 'none'},):
        c = dict(best[0])
        c.update(upd)
        if c != best[0]:
            fails_some_schedule(c)
    # 4. explicit schedule, then delete context switches one at a time
    import checks.c03 as me
    o = me.run_case(best[0])
    sw = o.extra.get('switches')
    if sw is not None:
        c = dict(best[0])
        c['sched'] = {'kind': 'explicit', 'switches': sw}
        if fails(c):
            best[0] = c

            def test_sw(sub):
                c2 = dict(best[0])
                c2['sched'] = {'kind': 'explicit', 'switches': sub}
                if fails(c2):
                    best[0] = c2
                    return True
                return False
            ddmin(list(sw), test_sw)
    return best[0]


def oracle_selftest():
    """Hand-written histories with known verdicts: the linearizability checker must accept exactly the
    linearizable ones (strict), classify the C03-F1 family as 'relaxed', and reject the rest."""
    H = lambda *threads: [[{'op': op, 'inv': i, 'ret': r, 'out': o} for (op, i, r, o) in t] for t in threads]
    ok, exc = (lambda v: ('ok', v)), (lambda n: ('exc', n))
    lri2, lru2 = M.Spec('LRI', 2), M.Spec('LRU', 2)
    full = M.apply(lri2, M.apply(lri2, lri2.initial(), ('set', 1, 'a'))[0][1], ('set', 2, 'b'))[0][1]
    fullu = M.apply(lru2, M.apply(lru2, lru2.initial(), ('set', 1, 'a'))[0][1], ('set', 2, 'b'))[0][1]
    cases = [
        ('read after write', lri2, None, H([(('set', 1, 'a'), 1, 2, ok(None))], [(('get', 1), 3, 4, ok('a'))]), {1: 'a'}, [1], 'strict'),
        ('stale read after write returned', lri2, None, H([(('set', 1, 'a'), 1, 2, ok(None))], [(('get', 1), 3, 4, exc('KeyError'))]), {1: 'a'}, [1], 'no'),
        ('concurrent read may come first', lri2, None, H([(('set', 1, 'a'), 1, 10, ok(None))], [(('get', 1), 2, 3, exc('KeyError'))]), {1: 'a'}, [1], 'strict'),
        ('lost update', lri2, None, H([(('set', 1, 'a'), 1, 2, ok(None)), (('set', 1, 'b'), 3, 4, ok(None))], [(('get', 1), 5, 6, ok('a'))]), {1: 'b'}, [1], 'no'),
        ('final eviction order right', lri2, None, H([(('set', 1, 'a'), 1, 2, ok(None))], [(('set', 2, 'b'), 3, 4, ok(None))]), {1: 'a', 2: 'b'}, [1, 2], 'strict'),
        ('final eviction order wrong', lri2, None, H([(('set', 1, 'a'), 1, 2, ok(None))], [(('set', 2, 'b'), 3, 4, ok(None))]), {1: 'a', 2: 'b'}, [2, 1], 'no'),
        ('concurrent sets: either order', lri2, None, H([(('set', 1, 'a'), 1, 9, ok(None))], [(('set', 2, 'b'), 2, 8, ok(None))]), {1: 'a', 2: 'b'}, [2, 1], 'strict'),
        ('C03-F1: len sees the gap of a replacing insert', lri2, full, H([(('set', 3, 'c'), 1, 10, ok(None))], [(('len',), 4, 5, ok(1))]), {2: 'b', 3: 'c'}, [2, 3], 'relaxed'),
        ('len above capacity is never explained', lri2, full, H([(('set', 3, 'c'), 1, 10, ok(None))], [(('len',), 4, 5, ok(3))]), {2: 'b', 3: 'c'}, [2, 3], 'no'),
        ('transient len only while overlapping', lri2, full, H([(('set', 3, 'c'), 1, 3, ok(None))], [(('len',), 4, 5, ok(1))]), {2: 'b', 3: 'c'}, [2, 3], 'no'),
        ('popitem may return any present pair', lri2, full, H([(('popitem',), 1, 2, ok((1, 'a')))], []), {2: 'b'}, [2], 'strict'),
        ('popitem of an absent pair', lri2, full, H([(('popitem',), 1, 2, ok((3, 'x')))], []), {1: 'a', 2: 'b'}, [1, 2], 'no'),
        ('LRU hit refreshes recency', lru2, fullu, H([(('get', 1), 1, 2, ok('a'))], [(('set', 3, 'c'), 3, 4, ok(None))]), {1: 'a', 3: 'c'}, [1, 3], 'strict'),
        ('LRI hit does not', lri2, full, H([(('get', 1), 1, 2, ok('a'))], [(('set', 3, 'c'), 3, 4, ok(None))]), {1: 'a', 3: 'c'}, [1, 3], 'no'),
        ('impossible interleaved update', lri2, None, H([(('update', [(1, 'a'), (2, 'b')]), 1, 10, ok(None))],
                                                      [(('getd', 1, None), 3, 4, ok('a')), (('getd', 2, None), 5, 6, ok(None))]), {1: 'a', 2: 'b'}, [1, 2], 'no'),
    ]
    bad = []
    for name, spec, init, threads, items, order, want in cases:
        got = linearize.classify(spec, threads, items, order, init)
        if got != want:
            bad.append('%s: got %s, want %s' % (name, got, want))
    if bad:
        from simkit.driver import HarnessError
        raise HarnessError('linearizability oracle self-test failed: ' + '; '.join(bad))
    return '%d hand-written histories classified as expected (strict / relaxed / not linearizable)' % len(cases)
