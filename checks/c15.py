"""C15 -- backoff sequences are monotone, capped at stop, right length; jitter bounded.

Engine: simrand (thin).  The only nondeterminism in this property is the global PRNG
read by the jitter; the simulator owns it and presents the draws a real run meets with
probability ~2**-53 (0.0 and 1-2**-53) next to ordinary ones.  The remaining clauses do
not depend on any seam; they are checked on the same runs as the un-jittered baseline.
"""
import math
from fractions import Fraction

from simkit import core, shrinkers
from engines.simrand import SimRandom

PROPERTY = 'C15'
ENGINE = 'simrand'
LEVEL = 'exploration'
SOURCE_FILES = ['boltons/iterutils.py']
SIM_TIME_UNIT = 'values drawn from backoff_iter'
TIERS = {
    'quick': {'budget_s': 10, 'min_runs': 50000, 'block': 2000},
    'thorough': {'budget_s': 300, 'min_runs': 5000000, 'block': 5000},
}
RULE = ('start/stop/factor/count/jitter and the PRNG draw script are drawn from the run PRNG, biased to exact '
        'powers (stop = start*factor**k and its floating-point neighbours), start = 0, stop < 1, factor = 1 with an '
        'explicit count, count in {None, 0, 1, k, "repeat"}, jitter in {False, +-0.1, +-0.5, +-1, True}, invalid '
        'parameters; draw scripts mix 0.0, 1-2**-53, tiny, mid and seeded values. Non-trivial: jitter is on and at '
        'least one extreme draw (0.0 or 1-2**-53) was consumed, or the stop is within 2 ulp of start*factor**k, or '
        'start == 0 with stop < 1. distinct = distinct (parameters, script) hashes among those.')
COMPONENTS = {'real': ['boltons.iterutils.backoff', 'boltons.iterutils.backoff_iter'],
              'stub': ['the random module as seen by iterutils (engines.simrand.SimRandom)']}
ASSUMPTIONS = ['"grow by exactly factor per step" is checked with a relative tolerance of 1e-12 per value (an implementation may multiply cumulatively or use powers); never exceeding stop, monotonicity, the length and "last value is stop" are checked exactly',
               'factor == 1 is only exercised with an explicit count (the statement restricts the default count to factor > 1)',
               'jitter bounds are evaluated in exact rational arithmetic with a 1e-12 relative allowance']

SELFTEST_MUTANT = 'jitter-sign-flipped'
REQUIRED_PROBES = ['extreme_draw_consumed', 'start_zero_stop_below_one', 'stop_within_ulps_of_exact_power',
                   'threads_preempted_inside_backoff_iter', 'prior_call_with_another_count']
it = None


def _to_decimal(x):
    import decimal
    return decimal.Decimal(repr(float(x)))


def _to_fraction(x):
    return Fraction(float(x))


_NUM_TYPES = {'decimal': _to_decimal, 'fraction': _to_fraction}
_MODULE_STATE = []      # (container, pristine copy) for every mutable module-level container of iterutils
_MODULE_CACHES = []     # module-level functions with an lru_cache


def setup(root):
    global it
    import boltons.iterutils as m
    it = m
    import copy
    del _MODULE_STATE[:], _MODULE_CACHES[:]
    for name, val in list(vars(m).items()):
        if name.startswith('__'):
            continue
        if type(val) in (dict, list, set):
            try:
                _MODULE_STATE.append((val, copy.copy(val)))
            except Exception:
                pass
        elif callable(getattr(val, 'cache_clear', None)):
            _MODULE_CACHES.append(val)
    from engines import threadsim
    threadsim.install_dormant(m)
    # module-level names bound to a generator object of the random module (or to one of its methods) at import time
    import random as _random
    del _RANDOM_NAMES[:]
    for name, val in list(vars(m).items()):
        if isinstance(val, _random.Random):
            _RANDOM_NAMES.append((name, None, isinstance(val, _random.SystemRandom)))
        elif isinstance(getattr(val, '__self__', None), _random.Random) and getattr(val, '__name__', '') in ('random', 'uniform'):
            _RANDOM_NAMES.append((name, val.__name__, isinstance(val.__self__, _random.SystemRandom)))


_RANDOM_NAMES = []


def _install_random(rnd, case):
    it.random = rnd
    rnd.entropy_fail_at = case.get('entropy_fail_at')
    rnd.entropy_failed = False
    for name, attr, system in _RANDOM_NAMES:
        src = rnd.SystemRandom() if system else rnd
        setattr(it, name, getattr(src, attr) if attr else src)


def _reset_module_state():
    """A run is a function of its case: whatever the module remembers between calls (memo tables, caches) is put
    back to its state at import before every case; histories that matter are part of the case itself."""
    for cont, pristine in _MODULE_STATE:
        if cont != pristine:
            if isinstance(cont, list):
                cont[:] = pristine
            else:
                cont.clear()
                cont.update(pristine)
    for fn in _MODULE_CACHES:
        fn.cache_clear()


EXT_HI = 1.0 - 2.0 ** -53
LONG = 20000           # sequences up to this length are materialised and judged value by value


def _gen_script(rng):
    n = rng.randint(1, 6)
    out = []
    for _ in range(n):
        r = rng.random()
        if r < 0.2:
            out.append(0.0)
        elif r < 0.4:
            out.append(EXT_HI)
        elif r < 0.5:
            out.append(2.0 ** -rng.randint(30, 1000))
        elif r < 0.6:
            out.append(0.5)
        else:
            out.append(rng.random())
    return out


def _gen_threads(rng):
    """Two or three caller threads, each consuming a jittered backoff_iter of its own (the callers share nothing)."""
    threads = []
    for _ in range(rng.choice([2, 2, 3])):
        threads.append({'start': rng.choice([0.0, 1.0, 0.25, 3.0]), 'stop': rng.choice([1.0, 10.0, 100.0, 3.0]),
                        'factor': rng.choice([2.0, 1.5, 10.0, 1.0]), 'count': rng.choice([1, 2, 5, 12, 33, 40, 70]),
                        'jitter': rng.choice([0.1, -0.5, 1.0, True, -1.0, False])})
        if threads[-1]['stop'] < threads[-1]['start']:
            threads[-1]['stop'] = threads[-1]['start']
    return {'mode': 'threads', 'threads': threads, 'script': _gen_script(rng),
            'sched': {'kind': 'random', 'seed': rng.getrandbits(32), 'p': rng.choice([0.02, 0.1, 0.3])}}


def gen_case(rng, tier):
    if rng.random() < 0.002:
        return _gen_threads(rng)
    factor = rng.choice([2.0, 2.0, 1.5, 3.0, 10.0, 1.1, 1.0000001, round(rng.uniform(1.01, 4.0), 3)])
    start = rng.choice([0.0, 0.0, 1.0, 0.25, 1.5, 0.001, 1e-9, 3.0, round(rng.uniform(0.0, 5.0), 3)])
    k = rng.randint(0, 12)
    r = rng.random()
    base = start if start else 1.0
    p = base
    for _ in range(k):
        p *= factor
    if r < 0.25:
        stop = p
    elif r < 0.4:
        stop = math.nextafter(p, math.inf)
    elif r < 0.55:
        stop = math.nextafter(p, 0.0)
    elif r < 0.65:
        stop = base * factor ** k
    elif r < 0.75:
        stop = start if start else 0.5
    elif r < 0.85:
        stop = rng.choice([0.5, 0.9, 0.001, 1.0, 0.999999])
    else:
        stop = round(start + rng.uniform(0.0, 100.0), 3)
    if stop < start:
        stop = start
    if stop <= 0:
        stop = 0.5
    if math.log(max(stop / base, 1.0)) / math.log(factor) > 400:
        factor = 2.0             # keep sequences short (the harness materialises them)
    count = rng.choice([None, None, None, 0, 1, 2, k, k + 1, k + 3, 'repeat'])
    if rng.random() < 0.02:
        count = rng.choice([2 ** 63 - 1, 2 ** 63, 2 ** 64, 10 ** 30, 1500, 10001, 16385])     # explicit counts nobody would materialise, and long ones
    prior_count = rng.choice([0, 1, 2, 3, 'repeat']) if rng.random() < 0.1 else None
    num_type = rng.choice(['decimal', 'fraction']) if rng.random() < 0.04 else None
    jitter = rng.choice([False, False, 0.1, -0.1, 0.5, -0.5, 1.0, -1.0, True, 0.999, -0.25])
    api = rng.choice(['backoff', 'backoff_iter'])
    case = {'start': start, 'stop': stop, 'factor': factor, 'count': count, 'jitter': jitter, 'prior_count': prior_count, 'num_type': num_type,
            'entropy_fail_at': rng.choice([0, 1, 2, 3, 5]) if rng.random() < 0.05 else None,
            'by_hand': rng.choice([0, 0, 0, 0, 1, 2, 3]),
            'api': api, 'script': _gen_script(rng), 'k_hint': k, 'mutate': rng.choice(['clear', 'append'])}
    if rng.random() < 0.06:
        if rng.random() < 0.5:
            case['factor'] = 1.0
            case['count'] = rng.choice([0, 1, 3, 7, 'repeat'])
    if rng.random() < 0.08:
        bad = rng.choice(['start<0', 'factor<1', 'stop=0', 'stop<start', 'count<0', 'jitter>1', 'jitter<-1'])
        if bad == 'start<0':
            case['start'] = -abs(start) - 0.5
            if rng.random() < 0.3:
                case['stop'] = case['start']
        elif bad == 'factor<1':
            case['factor'] = rng.choice([0.5, 0.999, 0.0, -2.0])
            if rng.random() < 0.3:
                case['stop'] = case['start'] = max(start, 0.5)      # a constant backoff is still validated
        elif bad == 'stop=0':
            case['stop'] = 0.0
            case['start'] = 0.0
        elif bad == 'stop<start':
            case['start'] = stop + 1.0
        elif bad == 'count<0':
            case['count'] = -rng.randint(1, 3)
            if rng.random() < 0.3:
                case['stop'] = case['start'] = max(start, 0.5)
        elif bad == 'jitter>1':
            case['jitter'] = rng.choice([1.0000001, 2.0, 5])
        else:
            case['jitter'] = rng.choice([-1.0000001, -2.0])
    if rng.random() < 0.05:
        # magnitudes: the whole float range is 'real start/stop/factor in range'
        lo = rng.choice([5e-324, 2.0 ** -1022, 1e-300, 1e-200, 1e-30, 1.0, 1e200, 0.0])
        hi = rng.choice([1e-300, 1e-200, 1e-30, 1.0, 1e30, 1e200, 1e300, 1.7976931348623157e308])
        if hi < lo:
            lo, hi = hi, lo
        if hi <= 0:
            hi = 1.0
        case.update(start=lo, stop=hi, factor=rng.choice([2.0, 10.0, 1e10, 1e100, 1e308, 16.0, 1.2, 1.1]),
                    count=rng.choice([None, None, None, 1, 5, 40]),
                    jitter=rng.choice([False, False, 0.5, 1.0, -0.5, -1.0]))
    if rng.random() < 0.004:
        # a valid factor barely above 1: the default count is in the thousands
        case.update(start=1.0, stop=rng.choice([2.0, 3.0, 4.0]), factor=1.0001, count=None,
                    jitter=False, num_type=None, prior_count=None)
    if isinstance(case['count'], int) and LONG >= case['count'] > 5000:
        case['jitter'] = False      # (long sequences are judged without the exact rational arithmetic of the jitter bounds)
    if case['count'] == 'repeat':
        case['api'] = 'backoff_iter'
    return case


def fixed_cases(tier):
    return [
        {'start': 0.0, 'stop': 0.5, 'factor': 2.0, 'count': None, 'jitter': False, 'api': 'backoff', 'script': [0.5], 'k_hint': 0},
        {'start': 1.0, 'stop': 10.0, 'factor': 2.0, 'count': None, 'jitter': False, 'api': 'backoff', 'script': [0.5], 'k_hint': 3},
        {'start': 0.25, 'stop': 100.0, 'factor': 10.0, 'count': None, 'jitter': True, 'api': 'backoff_iter', 'script': [0.0, EXT_HI], 'k_hint': 3},
        {'start': 1.0, 'stop': 10.0, 'factor': 2.0, 'count': 8, 'jitter': -1.0, 'api': 'backoff_iter', 'script': [EXT_HI, 0.0], 'k_hint': 3},
    ]


def case_size(case):
    if case.get('mode') == 'threads':
        return len(case['script']) + sum(t['count'] for t in case['threads'])
    return len(case['script']) + (0 if case['count'] in (None, 'repeat') else abs(case['count'])) + case.get('k_hint', 0)


def _valid(case):
    s, t, f, c, j = case['start'], case['stop'], case['factor'], case['count'], case['jitter']
    if s < 0 or f < 1 or t <= 0 or t < s:
        return False
    if c not in (None, 'repeat') and c < 0:
        return False
    if j is not False and j is not True and not (-1.0 <= j <= 1.0):
        return False
    return True


def _reference(start, stop, factor, n):
    """The un-jittered sequence, n values."""
    out = []
    cur = float(start)
    for _ in range(n):
        out.append(cur)
        if cur == 0:
            cur = min(1.0, stop)
        elif cur < stop:
            cur = cur * factor
        if cur > stop:
            cur = stop
    return out


def _steps_to_stop(start, stop, factor, cap=100000):
    cur, n = float(start), 1
    while cur < stop and n < cap:
        if cur == 0:
            cur = min(1.0, stop)
        else:
            cur = cur * factor
        if cur > stop:
            cur = stop
        n += 1
    return n


def _stationary(start, stop, factor, cap=5000):
    """Does the float sequence get stuck below stop (cur*factor == cur)?"""
    cur = float(start)
    for _ in range(cap):
        if cur >= stop:
            return False
        nxt = min(1.0, stop) if cur == 0 else cur * factor
        if nxt == cur:
            return True
        cur = nxt
    return False


def _close(a, b):
    return a == b or abs(a - b) <= 1e-12 * max(abs(a), abs(b))


def _run_threads(case):
    from engines import threadsim
    out = core.Outcome()
    log = core.EventLog(keep=False)
    rnd = SimRandom(case['script'], log)
    _install_random(rnd, case)
    _reset_module_state()
    specs = case['threads']
    n = len(specs)
    sched = threadsim.Scheduler(threadsim.make_policy(case['sched'], n), log, step_cap=400000)
    seen = [[] for _ in specs]
    errs = [None] * n

    def program(tid, sp):
        def run():
            try:
                g = it.backoff_iter(sp['start'], sp['stop'], count=sp['count'], factor=sp['factor'], jitter=sp['jitter'])
                for v in g:
                    seen[tid].append(v)
                    sched.yield_point(('value', tid, len(seen[tid])))
                    if len(seen[tid]) > sp['count'] + 3:
                        break
            except Exception as e:
                errs[tid] = e
        return run

    for tid, sp in enumerate(specs):
        sched.spawn(program(tid, sp))
    threadsim.tracing(it, True)
    try:
        reason = sched.run()
    finally:
        threadsim.tracing(it, False)
    out.steps = sched.step
    out.sim_time = float(sum(len(x) for x in seen))
    if reason in ('deadlock', 'no-progress'):
        out.fail(reason, sched.step, 'threads that each consume a backoff_iter of their own: %s' % reason, mode='threads')
    for tid, sp in enumerate(specs):
        if out.violation is not None:
            break
        desc = 'thread %d of %d, own iterator backoff_iter(%r, %r, count=%r, factor=%r, jitter=%r) -> %r' % (
            tid, n, sp['start'], sp['stop'], sp['count'], sp['factor'], sp['jitter'], seen[tid][:8])
        if errs[tid] is not None:
            out.fail('unexpected-exception', len(seen[tid]), '%s: raised %r after %d values, while other threads consumed '
                     'iterators of their own' % (desc, errs[tid], len(seen[tid])), clause='valid', mode='threads')
        elif len(seen[tid]) != sp['count']:
            out.fail('wrong-length', len(seen[tid]), '%s: %d values' % (desc, len(seen[tid])), clause='count', mode='threads')
        else:
            j = sp['jitter']
            jit = 1.0 if j is True else (0.0 if j is False else float(j))
            ref = _reference(sp['start'], sp['stop'], sp['factor'], max(1, len(seen[tid])))
            _judge_values(out, seen[tid], ref, jit, sp['stop'], desc, rnd.draws)
    if out.violation is None and sched.switch_in_traced:
        out.probe('threads_preempted_inside_backoff_iter')
        out.nontrivial.append(core.h64(['threads', specs, [(f_, t_) for _s, f_, t_, _w in sched.switches][:40]]))
    out.fault('scripted_draws', len(rnd.draws))
    out.digest = log.digest()
    return out


def run_case(case):
    if case.get('mode') == 'threads':
        return _run_threads(case)
    out = core.Outcome()
    log = core.EventLog(keep=False)
    rnd = SimRandom(case['script'], log)
    _install_random(rnd, case)
    _reset_module_state()
    s, t, f, c, j = case['start'], case['stop'], case['factor'], case['count'], case['jitter']
    valid = _valid(case)
    kw = dict(count=c, factor=f, jitter=j)
    # the same real numbers in another numeric type (the functions convert with float())
    conv = _NUM_TYPES.get(case.get('num_type'), lambda x: x)
    S, T = conv(s), conv(t)
    kw['factor'] = conv(f)
    if case.get('prior_count') is not None:
        # an earlier call in the same process with the same start/stop/factor but another count
        try:
            for _i, _v in zip(range(64), it.backoff_iter(S, T, count=case['prior_count'], factor=kw['factor'])):
                pass
        except (ValueError, TypeError, OverflowError):
            pass
        out.probe('prior_call_with_another_count')
    need = None
    if valid and c is None and f == 1.0:
        valid_scope = False          # default count with factor 1 is outside the statement
        out.digest = log.digest()
        return out
    if c == 'repeat':
        c = ''.join(['rep', 'eat'])     # an equal string that is not the interned literal (read from a config file, say)
        kw['count'] = c
    # an explicit count too large to materialise (2**63, 2**64 ...) is consumed like 'repeat': the first values only
    endless = c == 'repeat' or (isinstance(c, int) and not isinstance(c, bool) and c > LONG)
    if valid and isinstance(c, int) and 0 <= c <= LONG:
        need = c                        # an explicit count needs no walk to stop (factor 1 never gets there)
    elif valid:
        # (a closed-form estimate first: walking 20000 steps only to learn that the sequence is too long is waste)
        try:
            est = (math.log(t) - math.log(s if s else min(1.0, t))) / math.log(f) if f > 1.0 else float('inf')
        except (ValueError, ZeroDivisionError):
            est = 0.0
        to_stop = LONG if est > LONG + 16 else _steps_to_stop(s, t, f, cap=LONG)
        if to_stop >= LONG and endless and f == 1.0:
            to_stop = 40                # constant sequence, repeated endlessly: look at the first few dozen
        if to_stop >= LONG:
            if c is None and _stationary(s, t, f):
                # growth is not representable (start*factor rounds back to start): no float sequence can reach
                # stop, so nothing is demanded of the values -- but the default count must still be finite
                bound = 20 * (2 + int((math.log(t) - math.log(s)) / math.log(f))) + 1000 if s else 1000
                n = 0
                try:
                    for _v in it.backoff_iter(S, T, **kw):
                        n += 1
                        if n > bound:
                            out.fail('default-count-never-ends', n, 'backoff_iter(%r, %r, factor=%r) with the default count is still '
                                     'yielding after %d values (start*factor == start in floating point)' % (s, t, f, n),
                                     clause='default-count')
                            break
                except Exception as e:
                    out.fail('unexpected-exception', 0, 'valid parameters start=%r stop=%r factor=%r count=None raised %r'
                             % (s, t, f, e), clause='valid')
                out.probe('growth_not_representable')
                out.steps = n
            out.probe('skipped_sequence_too_long')
            out.digest = log.digest()
            return out
        need = (to_stop + 4) if endless else (to_stop + 2 if c is None else c)
    vals, exc = [], None
    overrun = False
    forms = []          # (violation class, what, values) of the list form, judged once the reference is known
    try:
        # always consume the generator form first, bounded: a sequence that does not end where
        # it must is reported, not materialised
        g = it.backoff_iter(S, T, **kw)
        lim = (need if endless else (need + 50 if need is not None else 50))
        # a retry loop may take its first delays by hand and hand the same object on to a for loop (or list()):
        # that continues the schedule, it does not start it again
        for _k in range(case.get('by_hand', 0)):
            try:
                vals.append(next(g))
            except StopIteration:
                break
        if case.get('by_hand'):
            out.probe('first_values_taken_with_next')
        for v in g:
            vals.append(v)
            if len(vals) >= lim and endless:
                break
            if len(vals) > lim + 1000:
                overrun = True
                break
        if case['api'] == 'backoff' and not overrun and not endless:
            # the list form must be the same sequence (same scripted draws)
            rnd2 = SimRandom(case['script'], None)
            _install_random(rnd2, {})
            lst = it.backoff(S, T, **kw)
            _install_random(rnd, {})
            forms.append(('list-form-differs', 'backoff() with the same arguments and draws', list(lst)))
            if isinstance(lst, list):
                # a caller may consume or edit its list (pop the delays it has used, append a final
                # one ...): the next call with equal arguments must be unaffected
                if case.get('mutate', 'clear') == 'clear':
                    del lst[:]
                else:
                    lst.append(-1.0)
                _install_random(SimRandom(case['script'], None), {})
                again = it.backoff(S, T, **kw)
                _install_random(rnd, {})
                forms.append(('result-shared-between-calls', 'an equal backoff() call after the caller edited the list it was given',
                              list(again)))
    except Exception as e:
        exc = e
    log.add('vals', repr(vals), type(exc).__name__ if exc else None)
    out.steps = len(vals) + 1
    out.sim_time = float(len(vals))
    jit = (1.0 if j is True else (0.0 if j is False else float(j))) if valid else 0.0
    if not valid:
        if not isinstance(exc, ValueError) or vals:
            out.fail('invalid-parameters-accepted', 0,
                     'start=%r stop=%r factor=%r count=%r jitter=%r: expected ValueError before anything is yielded, got %s after %d values'
                     % (s, t, f, c, j, type(exc).__name__ if exc else 'no exception', len(vals)), clause='ValueError')
        elif case['api'] == 'backoff' and c != 'repeat':
            # the list form is its own entry point: it must refuse the same parameters
            try:
                _install_random(SimRandom(case['script'], None), {})
                got = it.backoff(S, T, **kw)
                out.fail('invalid-parameters-accepted', 0, 'backoff(%r, %r, count=%r, factor=%r, jitter=%r) returned %r, expected ValueError'
                         % (s, t, c, f, j, list(got)[:8]), clause='ValueError', api='backoff')
            except ValueError:
                pass
            except Exception as e:
                out.fail('invalid-parameters-accepted', 0, 'backoff(%r, %r, count=%r, factor=%r, jitter=%r) raised %r, expected ValueError'
                         % (s, t, c, f, j, e), clause='ValueError', api='backoff')
            finally:
                _install_random(rnd, {})
        out.digest = log.digest()
        return out
    if overrun:
        out.fail('wrong-length', len(vals), 'backoff_iter(%r, %r, count=%r, factor=%r, jitter=%r) did not end within %d values'
                 % (s, t, c, f, j, len(vals)), clause='count')
        out.digest = log.digest()
        return out
    if exc is not None:
        out.fail('unexpected-exception', 0, 'valid parameters start=%r stop=%r factor=%r count=%r jitter=%r raised %r'
                 % (s, t, f, c, j, exc), clause='valid')
        out.digest = log.digest()
        return out
    n = len(vals)
    ref = _reference(s, t, f, max(n, 1))
    desc = 'backoff(%r, %r, count=%r, factor=%r, jitter=%r) -> %r' % (s, t, c, f, j, vals[:12])
    # length
    if c not in (None, 'repeat') and not endless and n != c:
        out.fail('wrong-length', n, '%s: %d values, count=%r' % (desc, n, c), clause='count')
    elif endless and n < need:
        out.fail('wrong-length', n, "%s: 'repeat' stopped after %d values" % (desc, n), clause='repeat')
    elif c is None and n == 0:
        out.fail('wrong-length', 0, '%s: default count produced nothing' % desc, clause='default-count')
    if out.violation is None:
        _judge_values(out, vals, ref, jit, t, desc, rnd.draws)
    for cls, what, fv in forms:
        if out.violation is not None:
            break
        if jit == 0.0 or len(fv) != n:
            # without jitter the two entry points give the same numbers
            if fv != vals:
                out.fail(cls, 0, '%s: %s gave %r' % (desc, what, fv[:12]), clause='api')
        else:
            # with jitter an implementation may map draws to positions in its own way: same length, same bounds
            sub = core.Outcome()
            _judge_values(sub, fv, ref, jit, t, '%s gave %r' % (what, fv[:12]), rnd.draws)
            if sub.violation is not None:
                out.fail(cls, 0, '%s: %s' % (desc, sub.violation['detail']), clause='api')
    if out.violation is None and c is None and jit == 0.0 and vals and vals[-1] != t:
        out.fail('default-count-misses-stop', n - 1, '%s: last value %r is not stop %r' % (desc, vals[-1], t),
                 clause='default-count')
    if out.violation is None and c is None and jit != 0.0 and vals:
        # with jitter the un-jittered value at the last position must be stop
        if ref[n - 1] != t:
            out.fail('default-count-misses-stop', n - 1, '%s: un-jittered value at the last position is %r, not stop %r'
                     % (desc, ref[n - 1], t), clause='default-count')
    if jit != 0.0 and n and len(rnd.draws) != n:
        out.probe('draws_not_one_per_value')
    nontriv = False
    if jit != 0.0 and any(d in (0.0, EXT_HI) for d in rnd.draws):
        nontriv = True
        out.probe('extreme_draw_consumed')
    if s == 0 and t < 1:
        nontriv = True
        out.probe('start_zero_stop_below_one')
    base = s if s else 1.0
    try:
        kk = round(math.log(t / base, f)) if f > 1 else 0
        p = base
        for _ in range(max(0, kk)):
            p *= f
        if p != 0 and abs(p - t) <= 4 * math.ulp(t):
            nontriv = True
            out.probe('stop_within_ulps_of_exact_power')
    except (ValueError, ZeroDivisionError, OverflowError):
        pass
    if nontriv:
        out.nontrivial.append(core.h64([s, t, f, c, j, case['script']]))
    if jit != 0.0:
        out.fault('scripted_draws', len(rnd.draws))
    out.digest = log.digest()
    return out


def _judge_values(out, vals, ref, jit, t, desc, draws):
    """Every value against the un-jittered reference at its position (exact growth without jitter, bounds with)."""
    if True:
        for i, v in enumerate(vals):
            b = ref[i]
            lo, hi = (b * (1 - jit), b) if jit >= 0 else (b, b * (1 - jit))
            if jit == 0.0:
                if not _close(v, b):
                    out.fail('wrong-value', i, '%s: value %d is %r, un-jittered reference %r' % (desc, i, v, b), clause='growth')
                    break
                if v > t:
                    out.fail('exceeds-stop', i, '%s: value %d = %r > stop' % (desc, i, v), clause='cap')
                    break
                if i and v < vals[i - 1]:
                    out.fail('not-monotone', i, '%s: value %d = %r < previous %r' % (desc, i, v, vals[i - 1]), clause='monotone')
                    break
            else:
                if not (math.isfinite(v) and math.isfinite(lo) and math.isfinite(hi)):
                    if v != v or (not math.isfinite(v) and math.isfinite(lo) and math.isfinite(hi)) \
                            or (math.isfinite(v) is False and v < 0 and b >= 0):
                        # NaN is between nothing; an infinite value needs an infinite bound on that side
                        out.fail('jitter-out-of-bounds', i, '%s: value %d = %r is not a finite number (b=%r, jitter=%r)'
                                 % (desc, i, v, b, jit), clause='jitter')
                        break
                    continue            # the bound itself overflows the float range: nothing to compare with
                fv = Fraction(v)
                flo, fhi = Fraction(lo), Fraction(hi)
                tol = Fraction(1, 10 ** 12) * max(abs(fhi), abs(flo))
                if not (flo - tol <= fv <= fhi + tol):
                    out.fail('jitter-out-of-bounds', i,
                             '%s: value %d = %r outside [%r, %r] (b=%r, jitter=%r, draws=%r)'
                             % (desc, i, v, lo, hi, b, jit, draws[:8]), clause='jitter')
                    break


def shrink(case, fails):
    if case.get('mode') == 'threads':
        best = case
        for k in range(len(case['threads'])):
            if len(best['threads']) > 2:
                c = dict(best, threads=best['threads'][:k] + best['threads'][k + 1:])
                if fails(c):
                    best = c
        for k in range(len(best['threads'])):
            for cnt in (1, 2, 5, 12, 33):
                if cnt < best['threads'][k]['count']:
                    th = [dict(t) for t in best['threads']]
                    th[k]['count'] = cnt
                    c = dict(best, threads=th)
                    if fails(c):
                        best = c
                        break
        return best
    c = shrinkers.shrink_list_field(case, 'script', fails, min_len=1)
    for simple in ({'jitter': False}, {'api': 'backoff'}, {'factor': 2.0}, {'start': 1.0}, {'start': 0.0},
                   {'count': None}, {'script': [0.5]}, {'script': [0.0]}):
        c = shrinkers.try_set(c, simple, fails)
    return c
