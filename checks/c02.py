"""C02 -- LRI/LRU stay within capacity, evict strictly by recency, count lookups.

The sequential (one caller, no pre-emption) configuration of the C03 simulation:
same harness, same simulated lock (which here verifies re-entrant use), same
reference model, same destructive eviction-order probe.  There is no fault or
schedule dimension in this property; the evidence says so (faults_fired: {}).
"""
from simkit import core, shrinkers
from engines import threadsim
from models import lru_model as M
from . import cachelib as L

PROPERTY = 'C02'
ENGINE = 'threadsim'
LEVEL = 'exploration'
SOURCE_FILES = ['boltons/cacheutils.py']
SIM_TIME_UNIT = 'cache operations executed (no clock in this property)'
TIERS = {
    'quick': {'budget_s': 20, 'min_runs': 40000, 'block': 500},
    'thorough': {'budget_s': 600, 'min_runs': 3000000, 'block': 2000},
}
RULE = ('Histories of 1-40 dict-API operations over 2-6 keys (ints, strs, equal-but-differently-typed '
        '1/1.0/True, tuples, None) on LRI and LRU with max_size 1-5 (sometimes 128) and on_miss in '
        '{none, pure, re-entrant set, re-entrant get}, drawn from the run PRNG; every step is compared '
        'with the reference cache (outcome, contents, len, three counters, on_miss calls) and the '
        'eviction order is probed destructively at the end and after three seeded prefixes. '
        'Non-trivial: at least one eviction happened and a key was looked up after it had been evicted or '
        'removed. distinct = distinct (class, max_size, on_miss, ops) hashes among those.')
COMPONENTS = {'real': ['boltons.cacheutils.LRI', 'boltons.cacheutils.LRU', 'CPython dict'],
              'stub': ['the lock (engines.threadsim.SimRLock in its uncontended mode; checks re-entrant use)',
                       'on_miss callbacks (harness functions)']}
ASSUMPTIONS = ['reference model models/lru_model.py is the reading of C02: popitem may return any present pair; '
               'update/|= are the sequence of assignments in argument order; copy() means the .copy() method',
               'only the public dict API and hit_count/miss_count/soft_miss_count are observed',
               'single caller, no pre-emption (the concurrent face is C03)']

KEY_POOLS = [
    [1, 2, 3, 4, 5, 6],
    ['a', 'b', 'c', 'd', 'e', 'f'],
    [1, {'k': 'f', 'v': 1.0}, {'k': 'b', 'v': True}, 0, {'k': 'b', 'v': False}, 2],
    [{'k': 't', 'v': [1, 2]}, {'k': 't', 'v': []}, {'k': 'n'}, 'a', 0, {'k': 't', 'v': ['a']}],
]


SELFTEST_MUTANT = 'pop-forgets-ring'
REQUIRED_PROBES = ['history_with_eviction', 'reentrant_on_miss_run']


def setup(root):
    L.setup(root)


def gen_case(rng, tier):
    cls = rng.choice(['LRI', 'LRU'])
    max_size = rng.choice([1, 1, 2, 2, 3, 3, 4, 5]) if rng.random() < 0.95 else 128
    on_miss = rng.choice(['none', 'none', 'none', 'pure', 'pure', 'reent_set', 'reent_get', 'reent_same', 'raises'])
    pool = rng.choice(KEY_POOLS)
    keys = pool[:rng.randint(2, 6)]
    nops = rng.randint(1, 40) if rng.random() < 0.8 else rng.randint(1, 8)
    ops = gen_ops(rng, keys, nops, 'v')
    prefixes = sorted(set(rng.randint(1, nops) for _ in range(3)))
    if rng.random() < 0.04:
        # scale: a big cache filled by one bulk update, then the usual operations around its edges
        max_size = rng.choice([16, 64, 128, 129, 256, 300])
        base = list(range(1000, 1000 + max_size + 6))
        fill = [[k, 'f%d' % k] for k in base[:max_size - rng.choice([0, 0, 1, 2])]]
        edge = base[:3] + base[max_size - 3:max_size + 6]
        ops = [['update', fill, rng.choice(['pairs', 'dict'])]] + gen_ops(rng, edge, rng.randint(1, 30), 'w')
        prefixes = []
    return {'cls': cls, 'max_size': max_size, 'on_miss': on_miss, 'ops': ops, 'prefixes': prefixes}


def gen_ops(rng, keys, nops, tag, weights=None):
    ops = []
    ctr = [0]

    SHARED = [{'k': 'n'}, 0, '', 'dflt', {'k': 'b', 'v': False}]   # objects that also serve as defaults

    def val():
        ctr[0] += 1
        if rng.random() < 0.15:
            return rng.choice(SHARED)      # a stored value may be the very object used as a default
        return '%s%d' % (tag, ctr[0])

    def dflt():
        return rng.choice(SHARED)

    def pairs(n):
        return [[rng.choice(keys), val()] for _ in range(n)]

    def okind():
        # the other operand of ==/!=: mostly a plain dict, sometimes another mapping type
        return [rng.choice(L.OPERAND_KINDS[1:])] if rng.random() < 0.35 else []

    for _ in range(nops):
        r = rng.random()
        k = rng.choice(keys)
        if r < 0.26:
            ops.append(['set', k, val()])
        elif r < 0.40:
            ops.append(['get', k])
        elif r < 0.48:
            ops.append(['getd', k, dflt()] if rng.random() < 0.8 else ['getn', k])
        elif r < 0.55:
            ops.append(['setdefault', k, val() if rng.random() < 0.7 else dflt()] if rng.random() < 0.9 else ['setdefaultn', k])
        elif r < 0.60:
            ops.append(['del', k])
        elif r < 0.64:
            ops.append(['pop', k])
        elif r < 0.67:
            ops.append(['popd', k, dflt()])
        elif r < 0.70:
            ops.append(['popitem'])
        elif r < 0.715:
            ops.append(['clear'])
        elif r < 0.77:
            strkeys = [x for x in keys if isinstance(x, str)]
            if strkeys and rng.random() < 0.4:
                # positional mapping/pairs AND keyword arguments (string keys), possibly overlapping
                ops.append(['update', pairs(rng.randint(0, 3)), rng.choice(['both', 'bothdict']),
                            [[rng.choice(strkeys), val()] for _ in range(rng.randint(1, 2))]])
            else:
                ops.append(['update', pairs(rng.randint(0, 4)), rng.choice(['dict', 'pairs', 'iter', 'dict', 'pairs', 'iter', 'lri_src', 'lru_src', 'keysonly'])])
        elif r < 0.772:
            ops.append(['update_rmw', [rng.choice(keys) for _ in range(rng.randint(1, 3))], 'r%d' % rng.randint(0, 9)])
        elif r < 0.775:
            ops.append(['update_bad', pairs(rng.randint(0, 3)), rng.choice(['malformed', 'gen_raises', 'mapping_raises'])])
        elif r < 0.80:
            ops.append(['ior', pairs(rng.randint(0, 4))] + ([rng.choice(['lri_src', 'lru_src'])] if rng.random() < 0.25 else []))
        elif r < 0.84:
            ops.append(['in', k])
        elif r < 0.87:
            ops.append(['len'])
        elif r < 0.89:
            ops.append(['dict'])
        elif r < 0.91:
            ops.append(['keys'])
        elif r < 0.95:
            ops.append(['eq', 'CUR' if rng.random() < 0.5 else pairs(rng.randint(0, 3))] + okind())
        elif r < 0.965:
            ops.append(['ne', 'CUR' if rng.random() < 0.5 else pairs(rng.randint(0, 3))] + okind())
        elif r < 0.97:
            ops.append(rng.choice([['eqself'], ['eqself'], ['update_self'], ['ior_self']]))
        else:
            ops.append(['copy'])
    return ops


def fixed_cases(tier):
    return []


def case_size(case):
    return len(case['ops'])


def _resolve_cur(op, state, variant):
    """'CUR' arguments of ==/!= mean: a plain dict equal to the current contents
    (variant 0) -- the comparison a user is most likely to make."""
    if op[0] in ('eq', 'ne') and op[1] == 'CUR':
        if len(op) > 2 and op[2].replace('_reflected', '') in L.NOT_A_MAPPING:
            return (op[0], [(('not', 'a', 'mapping'), 0)])
        return (op[0], list(M.contents(state).items()))
    return None


def _compare_cur(c, op, mop):
    try:
        return ('ok', L.compare(c, op[0], mop[1], op[2] if len(op) > 2 else 'dict'))
    except Exception as e:
        return ('exc', type(e).__name__)


def _run_prefix(case, n, spec):
    """Fresh cache, first n ops, then probe: the eviction order after a prefix."""
    ctx = L.Ctx()
    sched = _Passive()
    c = L.make_cache(case, ctx, sched)
    state = spec.initial()
    for op in case['ops'][:n]:
        mop = _resolve_cur(op, state, 0) or L.model_op(op)
        if mop[0] in ('eq', 'ne') and op[1] == 'CUR':
            real = _compare_cur(c, op, mop)
        else:
            real, post = L.exec_op(c, op, ctx)
        alts = M.apply(spec, state, mop)
        if len(alts) > 1:
            m = [a for a in alts if a[0] == real]
            if not m:
                return None
            state = m[0][1]
        else:
            state = alts[0][1]
    return c, state


class _Passive:
    """Scheduler stand-in for the uncontended configuration."""
    cur = None
    abort_reason = None
    threads = ()


def run_case(case):
    out = core.Outcome()
    log = core.EventLog(keep=False)
    spec = M.Spec(case['cls'], case['max_size'], case['on_miss'])
    ctx = L.Ctx()
    sched = _Passive()
    c = L.make_cache(case, ctx, sched)
    state = spec.initial()
    model_calls = []
    gone = set()
    evicted_any = False
    looked_up_gone = False
    ms = case['max_size']
    for i, op in enumerate(case['ops']):
        mop = _resolve_cur(op, state, 0) or L.model_op(op)
        if op[0] in ('eq', 'ne') and op[1] == 'CUR':
            real = _compare_cur(c, op, mop)
            post = None
        else:
            real, post = L.exec_op(c, op, ctx)
        if post is not None:
            real = ('ok', post())
        log.add('op', i, op[0], repr(real))
        alts = M.apply(spec, state, mop)
        match = [a for a in alts if a[0] == real]
        if not match:
            want = alts[0][0] if len(alts) == 1 else ('one of', [a[0] for a in alts])
            out.fail('wrong-outcome', i, '%s on %s(max_size=%d, on_miss=%s) after %d ops returned %r, reference gives %r'
                     % (op, case['cls'], ms, case['on_miss'], i, real, want), op=op[0])
            break
        before = set(k for k, _ in state[0])
        _o, state, _views, calls = match[0]
        model_calls.extend(calls)
        after = set(k for k, _ in state[0])
        if mop[0] in ('get', 'getd', 'setdefault', 'in', 'pop', 'popd', 'del') and any(mop[1] == g for g in gone):
            looked_up_gone = True
        if mop[0] in ('set', 'update', 'ior', 'get', 'getd', 'setdefault') and (before - after):
            evicted_any = True
        gone |= (before - after)
        gone -= after
        # --- cross-checks after every step -------------------------------------
        n = len(c)
        if n > ms:
            out.fail('capacity-exceeded', i, 'len(cache) == %d > max_size == %d after %r' % (n, ms, op), op=op[0])
            break
        d = dict(c)
        if d != M.contents(state) or n != len(d):
            out.fail('contents-differ', i, 'after %r: cache holds %r (len %d), reference holds %r'
                     % (op, d, n, M.contents(state)), op=op[0])
            break
        cnt = (c.hit_count, c.miss_count, c.soft_miss_count)
        if cnt != M.counters(state):
            out.fail('counters-differ', i, 'after %r: (hit, miss, soft_miss) == %r, reference %r'
                     % (op, cnt, M.counters(state)), op=op[0])
            break
        if cnt[2] > cnt[1]:
            out.fail('counters-differ', i, 'soft_miss_count %d > miss_count %d' % (cnt[2], cnt[1]), op=op[0])
            break
        if ctx.on_miss_calls != model_calls:
            out.fail('on_miss-calls-differ', i, 'after %r: on_miss called for %r, reference %r'
                     % (op, ctx.on_miss_calls, model_calls), op=op[0])
            break
    out.steps = len(case['ops'])
    if out.violation is None:
        # eviction order at the end (destructive) ...
        pr = L.probe(c, ms)
        want = M.order(state)
        if pr['error'] or pr['over_capacity'] or (pr['order'] is not None and pr['order'] != want) or pr['left']:
            out.fail('eviction-order-differs', len(case['ops']),
                     'final eviction order (oldest first) %r, reference %r; probe error=%r left=%r over_capacity=%r'
                     % (pr['order'], want, pr['error'], pr['left'], pr['over_capacity']),
                     last_op=case['ops'][-1][0] if case['ops'] else None)
    if out.violation is None:
        # ... and after seeded prefixes (re-executed on a fresh cache)
        for p in case.get('prefixes', []):
            if p >= len(case['ops']) or p <= 0:
                continue
            r = _run_prefix(case, p, spec)
            if r is None:
                continue
            c2, st2 = r
            pr = L.probe(c2, ms)
            if pr['error'] or pr['over_capacity'] or pr['order'] != M.order(st2) or pr['left']:
                out.fail('eviction-order-differs', p,
                         'eviction order after the first %d ops %r, reference %r (probe error=%r left=%r)'
                         % (p, pr['order'], M.order(st2), pr['error'], pr['left']),
                         last_op=case['ops'][p - 1][0])
                break
            out.steps += p
    out.sim_time = float(out.steps)
    out.digest = log.digest()
    if evicted_any and looked_up_gone:
        out.nontrivial.append(core.h64([case['cls'], ms, case['on_miss'], case['ops']]))
    if evicted_any:
        out.probe('history_with_eviction')
    if case['on_miss'].startswith('reent'):
        out.probe('reentrant_on_miss_run')
    return out


def shrink(case, fails):
    c = shrinkers.shrink_list_field(case, 'ops', fails)
    c = shrinkers.try_set(c, {'prefixes': []}, fails)
    c = shrinkers.try_set(c, {'on_miss': 'none'}, fails)
    for ms in (1, 2, 3):
        if c['max_size'] > ms:
            c = shrinkers.try_set(c, {'max_size': ms}, fails)
    # shrink update/ior argument lists
    for i, op in enumerate(c['ops']):
        if op[0] in ('update', 'ior') and len(op[1]) > 1:
            from simkit.core import ddmin
            def test(sub, i=i, op=op):
                c2 = dict(c)
                c2['ops'] = list(c['ops'])
                c2['ops'][i] = [op[0], sub] + op[2:]
                return fails(c2)
            small = ddmin(op[1], test)
            if len(small) < len(op[1]):
                c = dict(c)
                c['ops'] = list(c['ops'])
                c['ops'][i] = [op[0], small] + op[2:]
    c = shrinkers.shrink_list_field(c, 'ops', fails)
    return c
