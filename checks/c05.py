"""C05 -- a failed or refused atomic_save leaves the destination intact and cleans up.

Engine: simfs with errno injection, short writes, a persistent disk-full state and a
second party creating files at the wrong moment.  For every workload the fault-free
run is recorded; then every single fault of the alphabet is injected at every event
it applies to (enumeration), plus seeded pairs of faults (the second fault placed in
the run that already contains the first).
"""
import errno
import random

from simkit import core, shrinkers
from engines import simfs
from . import savelib as S

PROPERTY = 'C05'
ENGINE = 'simfs'
LEVEL = 'fault_enumeration'
SOURCE_FILES = ['boltons/fileutils.py']
SIM_TIME_UNIT = 'seam events (file-system calls and write/flush/close on the part file)'
TIERS = {
    'quick': {'budget_s': 20, 'min_runs': 2000, 'block': 50, 'fixed_block': 8},
    'thorough': {'budget_s': 600, 'min_runs': 150000, 'block': 200, 'fixed_block': 8},
}
RULE = ('One evaluation = one workload (overwrite, overwrite_part, rm_part_on_exc, text_mode, file_perms, '
        'umask, buffering, initial destination and part file, body that may raise) with EVERY single fault of the '
        'alphabet injected at every event it applies to (coverage.fault_runs), every second-party file creation '
        'between setup and publication, and a seeded sample of fault pairs (all pairs for the fixed matrix in the '
        'thorough tier). Non-trivial = a faulted run in which the fault fired while the part file existed; '
        'distinct = distinct (configuration class, faulted call, fault, phase) tuples.')
COMPONENTS = {'real': ['boltons.fileutils.AtomicSaver / atomic_save / atomic_rename / replace / set_cloexec',
                       'CPython io.BufferedRandom and io.TextIOWrapper (the part file object)'],
              'stub': ['os module (engines.simfs.SimOS)', 'fcntl module', 'the raw file (SimRaw)', 'the second party']}
ASSUMPTIONS = ['fault alphabet = exactly the steps C05 names: open(part), chmod(part), raw write (from body, flush or close), fsync, close, rename, link, and unlink(part) during clean-up as a second fault; stat/lexists/fcntl/fdopen are not faulted',
               'close() releases the descriptor even when it reports EIO (Linux)',
               'a failure after publication on the no-clobber path (unlink(part) after a successful link) may surface as an exception with the new content in place',
               'the part file may remain when the clean-up unlink itself was made to fail, or when it pre-existed and made setup refuse (then it must be untouched)']

E = errno
FAULTS = {
    'open': [('errno', E.EACCES), ('errno', E.ENOSPC), ('errno', E.EMFILE), ('errno', E.EROFS)],
    'chmod': [('errno', E.EPERM)],
    'raw.write': [('errno', E.ENOSPC), ('errno', E.EIO), ('errno', E.EDQUOT), ('short', 1), ('short', 3), ('disk-full', 0)],
    'fsync': [('errno', E.EIO), ('errno', E.ENOSPC)],
    'raw.close': [('errno', E.EIO)],
    'rename': [('errno', E.EACCES), ('errno', E.EPERM), ('errno', E.ENOSPC), ('errno', E.EIO), ('errno', E.EXDEV),
               ('errno', E.EBUSY), ('errno', E.EINTR)],
    'link': [('errno', E.EPERM), ('errno', E.EMLINK), ('errno', E.EXDEV), ('errno', E.EBUSY), ('errno', E.EINTR)],
}
CLEANUP_FAULTS = [('errno', E.EACCES), ('errno', E.EIO)]
EXTRA_FAULTS = [('errno', E.EINVAL), ('errno', E.EIO)]


SELFTEST_MUTANT = 'skip-cleanup-on-body-exception'
REQUIRED_PROBES = ['fault_pair_both_fired', 'second-party-creates-dest', 'second-party-creates-part',
                   'raw.write:short', 'raw.write:disk-full', 'fsync:EIO', 'raw.close:EIO', 'chmod:EPERM',
                   'open:ENOSPC', 'rename:EACCES', 'link:EMLINK', 'cleanup-unlink:EIO', 'second-party-removes-part']


def setup(root):
    S.setup(root)


def gen_case(rng, tier):
    case = S.gen_workload(rng, faults=True)
    if rng.random() < 0.3:
        case['sp_snapshot'] = True
    case['pair_seed'] = rng.getrandbits(32)
    case['pairs'] = 6 if tier == 'quick' else 40
    return case


_FIXED = None


def fixed_cases(tier):
    global _FIXED
    if _FIXED is None:
        cases = []
        for overwrite in (True, False):
            for present in (False, True):
                for rm in (True, False):
                    for perms in (None, 0o600):
                        for text in (False, True):
                            for raises in (False, True):
                                body = [['write', 'abc' if text else b'abc'.hex()],
                                        ['write', ('0123456789' * 2) if text else (b'0123456789' * 2).hex()]]
                                if raises:
                                    body.insert(1, ['raise'])
                                cases.append({'text_mode': text, 'overwrite': overwrite, 'part_file': None,
                                              'buffering': -1, 'blksize': 8, 'umask': 0o027, 'dest_rel': False,
                                              'dest_initial': {'data': b'OLD'.hex(), 'mode': 0o664} if present else None,
                                              'file_perms': perms, 'overwrite_part': False, 'rm_part_on_exc': rm,
                                              'body': body, 'pair_seed': 7, 'pairs': 10 if tier == 'quick' else 100000})
        _FIXED = cases
    return _FIXED


def case_size(case):
    return len(case['body']) + sum(len(s[1]) for s in case['body'] if s[0] == 'write') + \
        (len(case['faults']) if case.get('faults') is not None else 50)


def describe_case(case):
    return case


# ------------------------------------------------------------------------------------------

class Pre:
    """What the world looked like before the save."""

    def __init__(self, case):
        _a, self.dest, self.part = S.paths(case)
        di, pi = case.get('dest_initial'), case.get('part_initial')
        # (through a symlink the content/mode are those of its target; a dangling link reads as absent)
        self.dest_data = bytes.fromhex(di['data']) if (di and di.get('data') is not None) else None
        self.dest_mode = di['mode'] if (di and di.get('data') is not None) else None
        self.part_data = bytes.fromhex(pi['data']) if (pi and pi.get('data') is not None) else None
        self.part_mode = pi['mode'] if (pi and pi.get('data') is not None) else None
        self.dest_link = di.get('symlink') if di else None
        self.part_link = pi.get('symlink') if pi else None
        self.dest_present = di is not None
        self.part_present = pi is not None
        self.warmup_failed = False
        if case.get('reuse'):
            # the same saver object completed earlier saves: the pre-state is what they left
            w = S.run_save(case, simfs.Plan(), None, only_warmup=True)
            self.warmup_failed = w.exc is not None
            ps = w.pre_state
            self.dest_data, self.dest_mode = ps['dest'], ps['dest_mode']
            self.part_data, self.part_mode = ps['part'], ps['part_mode']
        self.env = case.get('env') or {}
        self.new = S.new_content(case)
        self.overwrite = case.get('overwrite', True)
        self.overwrite_part = case.get('overwrite_part', False)
        self.rm = case.get('rm_part_on_exc', True)
        fp = case.get('file_perms')
        if fp is not None:
            self.want_mode = fp
        elif self.dest_mode is not None:
            self.want_mode = self.dest_mode
        else:
            self.want_mode = 0o666 & ~case.get('umask', 0o022)
        self.body_raises = S.body_raises(case)
        self.body_closes = any(st[0] == 'close' for st in case['body'][:S.steps_before_raise(case)])
        if case.get('reuse'):
            self.dest_present = self.dest_present or self.dest_data is not None
            self.part_present = self.part_present or self.part_data is not None
        self.name_too_long = S.name_too_long(case)
        self.refused_dest = self.dest_present and not self.overwrite
        self.refused_part = self.part_present and not self.overwrite_part


def _fmt(b):
    return 'absent' if b is None else repr(b[:40])


def judge(case, pre, r, faults, out, step, second_party=None, retry=True):
    """Oracle B1-B7 after the with statement.  faults: list of (kind, occ, fault) that fired."""
    fs = r.fs
    dest_now, mode_now = fs.read_path(pre.dest), fs.mode_of(pre.dest)
    part_now = fs.read_path(pre.part)
    first = faults[0] if faults else None
    call = first[0] if first else ('second-party' if second_party else 'none')
    phase = 'body' if (r.entered and not r.body_done) else ('setup' if not r.entered else 'exit')
    published = bool(r.sim.binding_changes.get(pre.dest)) and any(p[1] == pre.dest for p in r.sim.publish)
    errno_faults = [f for f in faults if f[2][0] in ('errno', 'disk-full')]
    sig = dict(call=call, phase=phase)
    want_dest, want_mode = pre.dest_data, pre.dest_mode
    if second_party == 'dest':
        want_dest, want_mode = b'SECOND PARTY', 0o640
    # a body that closes the file it was handed: the save may fail (loudly, cleanly) or still complete
    failing_body = pre.body_raises or (pre.body_closes and r.exc is not None)
    expected_failure = (failing_body or pre.refused_dest or pre.refused_part
                        or (second_party == 'dest' and not pre.overwrite) or second_party in ('part', 'rmpart')
                        or ('link' in pre.env and not pre.overwrite)
                        or (pre.name_too_long and r.exc is not None))

    # B5 for a part "file" that is a symbolic link: without overwrite_part neither the link nor the file it
    # points to may be touched (with overwrite_part the property allows re-use, so nothing is demanded)
    if pre.part_link and pre.refused_part:
        tgt = S.DIR + '/' + pre.part_link
        if not fs.is_symlink(pre.part) or fs.read_path(tgt) != pre.part_data:
            return out.fail('part-file-reused', step,
                            'a pre-existing part symlink (or the file behind it) was changed without overwrite_part: '
                            'link still there=%r, target %s -> %s'
                            % (fs.is_symlink(pre.part), _fmt(pre.part_data), _fmt(fs.read_path(tgt))), **sig)
    if r.exc is None:
        # B2: no exception => the save completed
        essential = [f for f in faults if f[0] != 'cleanup-unlink' and not f[0].startswith('extra:')]
        must_fail = expected_failure or any(f[2][0] == 'errno' for f in essential)
        if must_fail and not (dest_now == pre.new and part_now is None and not expected_failure
                              and all(f[2][0] != 'errno' for f in essential)):
            return out.fail('silent-failure', step,
                            'no exception reached the caller although %s; destination now %s'
                            % (_why(pre, faults, second_party), _fmt(dest_now)), **sig)
        if dest_now != pre.new:
            return out.fail('silent-failure', step,
                            'the with statement completed but the destination holds %s, not the new content %s (%s)'
                            % (_fmt(dest_now), _fmt(pre.new), _why(pre, faults, second_party)), **sig)
        if part_now is not None:
            return out.fail('part-left-behind', step, 'the save completed but the part file still exists', **sig)
        ok_modes = {pre.want_mode}
        if second_party == 'dest' and case.get('file_perms') is None:
            ok_modes.add(0o640)          # the file being replaced is then the second party's
        if mode_now not in ok_modes:
            return out.fail('wrong-permissions', step,
                            'completed save has mode %o, expected %o (file_perms=%r, replaced file mode=%r, umask=%o)'
                            % (mode_now, pre.want_mode, case.get('file_perms'), pre.dest_mode, case.get('umask', 0o022)),
                            **sig)
        return None

    # an exception escaped
    if published and failing_body:
        return out.fail('dest-changed', step,
                        'the body raised (%r) but the part file was published all the same: destination now %s, was %s'
                        % (r.exc, _fmt(dest_now), _fmt(want_dest)), **sig)
    if published:
        # B7: failure after publication: the new content must be in place and complete ...
        exc_errno = getattr(r.exc, 'errno', None)
        named = [f for f in faults if (f[0] in ('open', 'chmod', 'raw.write', 'fsync', 'raw.close', 'rename', 'link')
                                        or f[0].startswith('extra:'))
                 and ((f[2][0] == 'errno' and exc_errno == f[2][1]) or (f[2][0] == 'disk-full' and exc_errno == errno.ENOSPC))]
        # (only an error the caller actually got: a full disk does not fail a zero-byte write, and the
        # exception may come from the clean-up fault of a pair)
        if named:
            # ... and the failure must not be one of the steps C05 names: an error there means the save did
            # not complete, so the destination must be what it was (only clean-up after the commit may fail late)
            return out.fail('dest-changed', step,
                            'the operating system reported an error at %s and the caller got %r, but the destination had '
                            'already been replaced: was %s, now %s' % (named[0][0], r.exc, _fmt(want_dest), _fmt(dest_now)), **sig)
        if dest_now != pre.new:
            return out.fail('dest-changed', step,
                            'an exception escaped after publication and the destination holds %s, not %s'
                            % (_fmt(dest_now), _fmt(pre.new)), **sig)
        return None
    # B1
    if dest_now != want_dest or (want_dest is not None and mode_now != want_mode):
        return out.fail('dest-changed', step,
                        'the save failed (%r) but the destination changed: was %s mode %s, now %s mode %s (%s)'
                        % (r.exc, _fmt(want_dest), _o(want_mode), _fmt(dest_now), _o(mode_now),
                           _why(pre, faults, second_party)), **sig)
    # B5: a pre-existing part file that made setup refuse is untouched
    if pre.refused_part:
        if part_now != pre.part_data or (pre.part_data is not None and fs.mode_of(pre.part) != pre.part_mode):
            return out.fail('part-file-reused', step,
                            'a pre-existing part file was modified without overwrite_part: %s -> %s'
                            % (_fmt(pre.part_data), _fmt(part_now)), **sig)
        return None
    if second_party == 'part':
        if part_now != b'SECOND PARTY':
            return out.fail('part-file-reused', step, "another writer's part file was modified or removed: now %s"
                            % _fmt(part_now), **sig)
        return None
    # B3 / B4
    cleanup_faulted = any(f[0] == 'cleanup-unlink' for f in faults)
    ours = fs.lexists(pre.part) and fs.binding(pre.part) != r.pre_inos.get(pre.part)
    if fs.lexists(pre.part) and not ours and (part_now != pre.part_data or
                                              (pre.part_data is not None and fs.mode_of(pre.part) != pre.part_mode)):
        return out.fail('part-file-reused', step, 'the pre-existing part file was modified in place: %s -> %s'
                        % (_fmt(pre.part_data), _fmt(part_now)), **sig)
    if pre.rm and ours and not cleanup_faulted:
        return out.fail('part-left-behind', step,
                        'the save failed (%r; %s) with rm_part_on_exc=True but the part file is still there'
                        % (r.exc, _why(pre, faults, second_party)), **sig)
    if retry and pre.rm and not cleanup_faulted:
        # an immediate fault-free retry must succeed unless it is legitimately refused
        fs.full = False
        c2 = dict(case)
        c2['body'] = [s for s in case['body'] if s[0] not in ('raise', 'close', 'chdir')]
        c2.pop('chdir', None)
        fs.cwd = S.DIR                  # the retry names the same destination
        orphans = list(getattr(r.sim, 'orphans', ()))
        hooks2 = None
        if orphans:
            # the failed save left a live file object whose descriptor number it had closed with os.close(): that object
            # is finalised some time later -- here: during the retry, right before its first fsync -- and closes the number
            def hooks2(sim2):
                def fin():
                    for n in orphans:
                        if n in sim2.fs.fds:
                            sim2.fs.close(n)
                    del orphans[:]
                return {('fsync', 0): fin}
            out.probe('stale_file_object_finalised_during_retry')
        r2 = S.run_save(c2, simfs.Plan(), None, fs=fs, hooks=hooks2)
        refused = r2.exc is not None and (pre.name_too_long or (not pre.overwrite and (
            fs.lexists(pre.dest) or 'link' in pre.env)))
        if r2.exc is not None and not refused:
            return out.fail('retry-fails', step, 'after the failed save (%s) an immediate retry raised %r'
                            % (_why(pre, faults, second_party), r2.exc), **sig)
        if r2.exc is None and fs.read_path(pre.dest) != S.new_content(c2):
            return out.fail('retry-fails', step, 'the retry completed with wrong content', **sig)
    return None


def _o(m):
    return 'n/a' if m is None else oct(m)


def _why(pre, faults, second_party):
    parts = []
    if pre.name_too_long:
        parts.append('a file name longer than NAME_MAX')
    if pre.body_raises:
        parts.append('the body raised')
    elif pre.body_closes:
        parts.append('the body closed the file')
    if pre.refused_dest:
        parts.append('overwrite=False and the destination exists')
    if pre.refused_part:
        parts.append('a part file pre-exists and overwrite_part is off')
    if 'link' in pre.env and not pre.overwrite:
        parts.append('the file system does not support hard links')
    if second_party:
        parts.append('another process removed the part file mid-save' if second_party == 'rmpart'
                     else 'another process created the %s file mid-save' % second_party)
    for kind, occ, f in faults:
        parts.append('%s #%d %s' % (kind, occ, 'short write' if f[0] == 'short' else
                                   ('disk full from here on' if f[0] == 'disk-full' else errno.errorcode.get(f[1], f[1]))))
    return '; '.join(parts) or 'nothing went wrong'


def _faultable(trace_occ, trace, pre, after=-1):
    """Yield (event index, kind-label, plan key, fault) for every applicable single fault."""
    seen_open = False
    last_link_ok = None
    for k, ((kind, occ), (_k2, detail)) in enumerate(zip(trace_occ, trace)):
        if kind == 'open':
            seen_open = True
        if k <= after:
            if kind == 'link':
                last_link_ok = k
            continue
        if kind == 'open' and detail == pre.part:
            for f in FAULTS['open']:
                yield k, 'open', (kind, occ), f
        elif kind == 'chmod' and detail == pre.part:
            for f in FAULTS['chmod']:
                yield k, 'chmod', (kind, occ), f
        elif kind == 'fsync' and detail == 'dir':
            # not a step C05 names (the directory, not the file): an implementation may treat its failure
            # as fatal before the commit, or ignore it -- but not raise once the destination is replaced
            for f in EXTRA_FAULTS:
                yield k, 'extra:dir-fsync', (kind, occ), f
        elif kind in ('raw.write', 'fsync', 'raw.close'):
            for f in FAULTS[kind]:
                yield k, kind, (kind, occ), f
        elif kind in ('rename', 'link') and detail[1] == pre.dest:
            for f in FAULTS[kind]:
                yield k, kind, (kind, occ), f
        elif kind == 'unlink' and detail == pre.part and seen_open and after >= 0:
            for f in CLEANUP_FAULTS:
                yield k, 'cleanup-unlink', (kind, occ), f


OTHER_PATH = S.DIR + '/other-thread.txt'
OTHER_DATA = b'SAVED BY ANOTHER THREAD'


def judge_other_thread(case, r, hooks_act, out, step):
    """The save made by the other thread (fault-free, new file, default arguments) must be complete."""
    fs = r.fs
    sig = dict(phase='concurrent-save')
    if hooks_act.error is not None:
        return out.fail('concurrent-save-wrong', step, 'a fault-free save by another thread, run in the middle of this save, '
                        'raised %r' % (hooks_act.error,), **sig)
    data = fs.read_path(OTHER_PATH)
    if data != OTHER_DATA:
        return out.fail('concurrent-save-wrong', step, 'a save by another thread in the middle of this save left %r at its '
                        'destination' % (data,), **sig)
    want = 0o666 & ~case.get('umask', 0o022)
    if fs.mode_of(OTHER_PATH) != want:
        return out.fail('concurrent-save-wrong', step, 'a new file saved by another thread in the middle of this save has mode %o, '
                        'the umask default is %o (umask %o)' % (fs.mode_of(OTHER_PATH), want, case.get('umask', 0o022)), **sig)
    if fs.lexists(OTHER_PATH + '.part'):
        return out.fail('concurrent-save-wrong', step, 'the other thread\'s part file is still there', **sig)
    if hooks_act.reenter_error is not None:
        return out.fail('concurrent-save-wrong', step, 'entering the saver object another thread is saving through raised %r '
                        '(an OSError refusal is expected)' % (hooks_act.reenter_error,), **sig)
    if hooks_act.reentered == 'completed':
        return out.fail('concurrent-save-wrong', step, 'a second thread entered the saver object in the middle of a save through '
                        'it and was not refused (default overwrite_part)', **sig)
    if hooks_act.reentered == 'refused':
        out.probe('same_saver_entered_twice_refused')
    return None


def _run_faulted(case, pre, plan_faults, labels, log, out, second_party=None, sp_key=None):
    hooks = None
    if second_party == 'thread':
        def hooks(sim):
            def act():
                # another thread of this process runs a complete, fault-free save of another file right here
                if act.fired:
                    return
                act.fired = True
                armed, sim.armed = sim.armed, False
                try:
                    with S.fu.atomic_save(OTHER_PATH) as fo:
                        fo.write(OTHER_DATA)
                except BaseException as e:          # it is another thread: nothing propagates into this one
                    act.error = e
                try:
                    # ... and then tries to enter the very saver object this thread is using (a module-level
                    # saver shared by mistake): while a save is in progress that must be refused (the part file
                    # exists) and must leave the save in progress alone
                    shared = getattr(sim, 'current_saver', None)
                    if shared is not None and not case.get('overwrite_part') and sim.fs.lexists(pre.part) \
                            and getattr(shared, 'part_file', None) is not None:
                        try:
                            with shared as fo2:
                                fo2.write(b'SECOND ENTRY' if not case.get('text_mode') else 'SECOND ENTRY')
                            act.reentered = 'completed'
                        except OSError:
                            act.reentered = 'refused'
                except BaseException as e:
                    act.reenter_error = e
                finally:
                    sim.armed = armed
            act.fired = False
            act.error = None
            act.reentered = None
            act.reenter_error = None
            hooks.act = act
            return {sp_key: act}
    elif second_party == 'straddle':
        def hooks(sim):
            def act():
                # another thread of this process *begins* a save of another file right here and is still inside its
                # with-block when this save ends; it finishes afterwards
                if act.fired:
                    return
                act.fired = True
                armed, sim.armed = sim.armed, False
                try:
                    act.saver = S.fu.atomic_save(OTHER_PATH)
                    act.file = act.saver.__enter__()
                    act.file.write(OTHER_DATA[:9])
                except BaseException as e:
                    act.error = e
                finally:
                    sim.armed = armed

            def after():
                if not act.fired or act.error is not None:
                    return
                armed, sim.armed = sim.armed, False
                try:
                    act.file.write(OTHER_DATA[9:])
                    act.saver.__exit__(None, None, None)
                except BaseException as e:
                    act.error = e
                finally:
                    sim.armed = armed
            act.fired = False
            act.error = None
            act.reentered = None
            act.reenter_error = None
            hooks.act = act
            return {sp_key: act, 'after-save': after}
    elif second_party == 'rmpart':
        def hooks(sim):
            def act():
                # a tmp cleaner (or an operator tidying up "stale" files) removes the part file of the save in progress
                if not act.fired and sim.fs.lexists(pre.part) and sim.fs.binding(pre.part) != pre_binding.get('part') \
                        and not any(p[1] == pre.dest for p in sim.publish):
                    sim.fs.unlink(pre.part)
                    act.fired = True
            act.fired = False
            hooks.act = act
            pre_binding['part'] = sim.fs.binding(pre.part)
            return {sp_key: act}
        pre_binding = {}
    elif second_party:
        def hooks(sim):
            def act():
                path = pre.dest if second_party == 'dest' else pre.part
                if sim.fs.lookup(path) is None:
                    ino = sim.fs.create(path, 0o777)
                    ino.mode = 0o640
                    ino.data.extend(b'SECOND PARTY')
                    ino.synced = bytes(ino.data)
                    act.fired = True
                    if case.get('sp_snapshot') and second_party == 'dest' and sim.fs.lookup(pre.part) is not None \
                            and pre.part not in sim.fs.symlinks:
                        # ... and it is a backup job that also snapshots the directory with hard links (cp -l):
                        # the part file of the save in progress now has a second name
                        snap = sim.fs.abspath(S.DIR + '/snapshot-of-part')
                        i = sim.fs.dir[pre.part]
                        sim.fs.dir[snap] = i
                        sim.fs.inodes[i].nlink += 1
            act.fired = False
            hooks.act = act
            return {sp_key: act}
    r = S.run_save(case, simfs.Plan(faults=plan_faults), log, hooks=hooks)
    fired = []
    for (k, kind, f) in r.sim.fired:
        key = r.sim.occ[k]
        lab = labels.get(key, kind)
        fired.append((lab, key[1], f))
        out.fault('%s:%s' % (lab, f[0] if f[0] != 'errno' else errno.errorcode.get(f[1], str(f[1]))))
    sp_fired = bool(second_party and hooks.act.fired)
    if sp_fired and second_party == 'straddle':
        out.fault('another-thread-mid-save-when-this-one-ends')
        r.other_thread = hooks.act
    elif sp_fired and second_party == 'thread':
        out.fault('another-thread-saves-mid-save')
        r.other_thread = hooks.act
    elif sp_fired and second_party == 'rmpart':
        out.fault('second-party-removes-part')
    elif sp_fired:
        out.fault('second-party-creates-' + second_party)
    return r, fired, sp_fired


def run_case(case):
    out = core.Outcome()
    log = core.EventLog(keep=False)
    S.fresh_module()
    pre = Pre(case)
    fault_runs = 0
    if case.get('faults') is not None:
        # explicit (replay / minimised) plan: [[kind, occ, fkind, arg, label], ...] (+ optional second party)
        plan, labels = {}, {}
        for kind, occ, fk, arg, lab in case['faults']:
            plan[(kind, occ)] = (fk, arg)
            labels[(kind, occ)] = lab
        sp = case.get('second_party')
        r, fired, spf = _run_faulted(case, pre, plan, labels, log, out,
                                     second_party=sp[0] if sp else None,
                                     sp_key=(sp[1], sp[2]) if sp else None)
        out.steps = r.sim.n
        if sp and sp[0] in ('thread', 'straddle'):
            if spf:
                judge_other_thread(case, r, r.other_thread, out, 0)
            if out.violation is None:
                judge(case, pre, r, fired, out, 0)
        else:
            judge(case, pre, r, fired, out, 0, second_party=sp[0] if (sp and spf) else None)
        if out.violation is not None:
            out.violation['sig']['faulted'] = bool(case['faults'] or sp)
        out.digest = log.digest()
        return out

    if pre.warmup_failed:
        out.digest = log.digest()
        return out                   # the un-judged earlier saves could not complete in this configuration
    base = S.run_save(case, simfs.Plan(), log)
    out.steps = base.sim.n
    if case.get('abandon_by_hand'):
        # a save driven by hand (setup(), writes) whose producer failed and never called __exit__: it did not
        # complete, so the destination is what it was (the part file may stay: nobody was there to remove it)
        now, mode = base.fs.read_path(pre.dest), base.fs.mode_of(pre.dest)
        if not isinstance(base.exc, S.BodyError):
            pass            # refused at setup() (existing destination/part file ...): nothing to judge here
        elif now != pre.dest_data or (pre.dest_data is not None and mode != pre.dest_mode):
            out.fail('dest-changed', 0, 'a saver driven by hand was abandoned after %d body steps (no __exit__ call) and the '
                     'destination changed: was %s, now %s' % (len(case['body']), _fmt(pre.dest_data), _fmt(now)),
                     call='none', phase='abandoned')
        else:
            out.probe('saver_abandoned_without_exit')
        out.extra['workloads'] = 1
        out.sim_time = float(out.steps)
        out.digest = log.digest()
        return out
    judge(case, pre, base, [], out, 0)
    if out.violation is not None:
        out.violation['sig']['faulted'] = False
    cfg = [case.get('overwrite', True), case.get('overwrite_part', False), case.get('rm_part_on_exc', True),
           case.get('text_mode', False), case.get('file_perms') is not None, pre.dest_data is not None,
           pre.part_data is not None, pre.body_raises]
    singles = []
    if out.violation is None:
        for k, lab, key, f in _faultable(base.sim.occ, base.sim.trace, pre):
            r, fired, _ = _run_faulted(case, pre, {key: f}, {key: lab}, log, out)
            fault_runs += 1
            out.steps += r.sim.n
            if not fired:
                continue
            if r.fs.lookup(pre.part) is not None or lab in ('raw.write', 'fsync', 'raw.close', 'rename', 'link', 'chmod'):
                out.nontrivial.append(core.h64([cfg, lab, list(f), 'single']))
            singles.append((k, lab, key, f, r))
            if judge(case, pre, r, fired, out, k):
                out.violation['sig']['faulted'] = True
                out.extra['found_plan'] = [[key[0], key[1], f[0], f[1], lab]]
                break
    # second party: another process creates the destination / the part file before event k
    if out.violation is None:
        for k, (kind, occ) in enumerate(base.sim.occ):
            for who in ('dest', 'part', 'rmpart'):
                if who == 'rmpart' and (kind in ('open', 'stat', 'lexists') or pre.part_present):
                    continue
                if who == 'dest' and pre.dest_present:
                    continue
                if who == 'part' and (pre.part_present or kind != 'open' or base.sim.trace[k][1] != pre.part):
                    continue
                if who == 'dest' and (k == 0 or any(p[0] < k for p in base.sim.publish)):
                    continue
                r, fired, spf = _run_faulted(case, pre, {}, {}, log, out, second_party=who, sp_key=(kind, occ))
                fault_runs += 1
                out.steps += r.sim.n
                if not spf:
                    continue
                out.nontrivial.append(core.h64([cfg, 'second-party', who, kind]))
                if judge(case, pre, r, fired, out, k, second_party=who):
                    out.violation['sig']['faulted'] = True
                    out.extra['found_plan'] = []
                    out.extra['found_sp'] = [who, kind, occ]
                    break
            if out.violation is not None:
                break
    # another thread of the same process completes a save of its own in the middle of this one (before event k)
    if out.violation is None and case.get('other_thread'):
        for k, (kind, occ) in enumerate(base.sim.occ):
            r, fired, spf = _run_faulted(case, pre, {}, {}, log, out, second_party='thread', sp_key=(kind, occ))
            fault_runs += 1
            out.steps += r.sim.n
            if not spf:
                continue
            out.nontrivial.append(core.h64([cfg, 'other-thread', kind, occ]))
            if judge_other_thread(case, r, r.other_thread, out, k) or judge(case, pre, r, fired, out, k):
                out.violation['sig']['faulted'] = True
                out.extra['found_plan'] = []
                out.extra['found_sp'] = ['thread', kind, occ]
                break
    # ... or is still in the middle of its own save when this one ends: normally (hook before any event), or after a
    # fault (hook before any event of the failure handling)
    if out.violation is None and case.get('other_thread'):
        # (not after a persistently full disk: the other thread's save cannot succeed there either)
        plans = [(None, None, None, None, base)] + [sg for sg in singles if sg[1] != 'cleanup-unlink' and sg[3][0] != 'disk-full']
        for (k1, lab1, key1, f1, r1) in plans:
            occ = r1.sim.occ
            for k in range(0 if k1 is None else k1 + 1, len(occ)):
                kind, o = occ[k]
                plan, labels = ({}, {}) if k1 is None else ({key1: f1}, {key1: lab1})
                r, fired, spf = _run_faulted(case, pre, plan, labels, log, out, second_party='straddle', sp_key=(kind, o))
                fault_runs += 1
                out.steps += r.sim.n
                if not spf or (k1 is not None and not fired):
                    continue
                out.nontrivial.append(core.h64([cfg, 'straddle', kind, o, lab1]))
                if judge_other_thread(case, r, r.other_thread, out, k) or judge(case, pre, r, fired, out, k):
                    out.violation['sig']['faulted'] = True
                    out.extra['found_plan'] = [] if k1 is None else [[key1[0], key1[1], f1[0], f1[1], lab1]]
                    out.extra['found_sp'] = ['straddle', kind, o]
                    break
            if out.violation is not None:
                break
    # pairs: the second fault is placed in the run that already contains the first
    if out.violation is None and singles:
        rng = random.Random(case.get('pair_seed', 0))
        budget = case.get('pairs', 6)
        cand = []
        for (k1, lab1, key1, f1, r1) in singles:
            for k2, lab2, key2, f2 in _faultable(r1.sim.occ, r1.sim.trace, pre, after=k1):
                cand.append((k1, lab1, key1, f1, k2, lab2, key2, f2))
        if len(cand) > budget:
            cand = rng.sample(cand, budget)
        for (k1, lab1, key1, f1, k2, lab2, key2, f2) in cand:
            r, fired, _ = _run_faulted(case, pre, {key1: f1, key2: f2}, {key1: lab1, key2: lab2}, log, out)
            fault_runs += 1
            out.steps += r.sim.n
            if len(fired) < 2:
                continue
            out.probe('fault_pair_both_fired')
            out.nontrivial.append(core.h64([cfg, lab1, list(f1), lab2, list(f2)]))
            if judge(case, pre, r, fired, out, k2):
                out.violation['sig']['faulted'] = True
                out.extra['found_plan'] = [[key1[0], key1[1], f1[0], f1[1], lab1], [key2[0], key2[1], f2[0], f2[1], lab2]]
                break
    out.extra['fault_runs'] = fault_runs
    out.extra['workloads'] = 1
    out.sim_time = float(out.steps)
    out.digest = log.digest()
    return out


def shrink(case, fails):
    """Pin the failing fault plan first (so the case is one execution), then shrink."""
    c = dict(case)
    if c.get('faults') is None:
        o = run_case(c)
        if o.violation is not None and 'found_plan' in o.extra:
            c2 = dict(c)
            c2['faults'] = o.extra['found_plan']
            if 'found_sp' in o.extra:
                c2['second_party'] = o.extra['found_sp']
            if fails(c2):
                c = shrinkers.shrink_list_field(c2, 'faults', fails)
    return _shrink_common(c, fails)


def _shrink_common(c, fails):
    for simple in ({'part_file': None}, {'dest_rel': False}, {'umask': 0o022}, {'buffering': -1},
                   {'file_perms': None}, {'part_initial': None}, {'overwrite_part': False}, {'reuse': 0}, {'env': None},
                   {'overwrite': True}, {'dest_initial': None}, {'blksize': 8192}):
        c = shrinkers.try_set(c, simple, fails)
    c = shrinkers.shrink_list_field(c, 'body', fails)
    return c
