"""C18 -- spooled files behave the same in memory and on disk; MultiFileReader concatenates.

Engine: simfs (thin).  What the caller cannot see or choose is *when* the object moves
from memory to a temporary file and how much of the temporary file's data sits in a
user-space buffer (the platform's st_blksize) when os.fstat or a later read looks at
it.  The simulator owns both: replicas of one history run in lock-step -- never rolls,
rolls at the first write, rolls at a seeded max_size, rolls when the scheduler calls
rollover()/fileno() at a seeded step -- each over a simulated temporary file with its
own write-back size, next to the io.BytesIO / io.StringIO reference.
"""
import errno
import io

from simkit import core, shrinkers
from engines import simfs

PROPERTY = 'C18'
ENGINE = 'simfs'
LEVEL = 'exploration'
SOURCE_FILES = ['boltons/ioutils.py']
SIM_TIME_UNIT = 'file operations executed per replica'
TIERS = {
    'quick': {'budget_s': 15, 'min_runs': 8000, 'block': 200},
    'thorough': {'budget_s': 600, 'min_runs': 600000, 'block': 1000},
}
RULE = ('A case is (bytes|text, a history of 1-25 operations from appending write / read(n) / read() / readline / '
        'readlines / next / list / seek(p in 0..len) / tell / getvalue / len, content alphabet with 1-4 byte code '
        'points and \\n, \\r\\n, \\r, replica configurations, READ_CHUNK_SIZE knob) or a MultiFileReader case '
        '(content partitioned into 1-5 members, mix of read(n)/read()/seek(0)). Every replica must return what the '
        'io reference returns at every step and agree on tell(). Non-trivial: some replica rolled over strictly '
        'between two operations that both touched data and the history contained a multi-byte character or \\r '
        '(text) / a read after a seek (bytes); for MultiFileReader: a sized read crossed a member boundary or '
        'followed seek(0). distinct = distinct case hashes among those. One replica in four runs with a full disk '
        'at the first physical write of its temporary file (one-shot ENOSPC): when that hits the copy made by the '
        'rollover, the operation may fail but everything written before must still be there, at the same '
        'position, and the object must go on working; a fault that fires at any other moment ends the judging of '
        'that replica.')
COMPONENTS = {'real': ['boltons.ioutils.SpooledBytesIO', 'boltons.ioutils.SpooledStringIO', 'boltons.ioutils.MultiFileReader',
                       'codecs.EncodedFile', 'CPython io.BufferedRandom over the simulated temp file'],
              'stub': ['tempfile.TemporaryFile as seen by ioutils (simfs anonymous file with a seeded write-back size)',
                       'os.fstat for simulated descriptors', 'the rollover instant (harness calls rollover()/fileno())']}
ASSUMPTIONS = ['reference = io.BytesIO() / io.StringIO() (lines end at \\n only)',
               'read sizes go up to 2**20: a size beyond available memory raises MemoryError on any real (rolled-over) file because CPython pre-allocates the buffer -- a resource fault, not a behaviour of boltons',
               'relative seeks: bytes variant takes io.BytesIO offsets; SpooledStringIO.seek(k, SEEK_CUR) means k code points forward and seek(k, SEEK_END) k code points back from the end (its own documented semantics; io.StringIO only allows offset 0 there), the reference is moved to the same absolute position',
               'write() return values are compared between replicas only (the spooled classes return None like Python 2 files); every other listed call is compared with the io reference',
               'writes are issued only when the reference position is at the end of the data (appending writes); seeks stay within 0..len',
               'READ_CHUNK_SIZE is a tuning knob and is varied per run (21333, 7, 3)']

SELFTEST_MUTANT = 'bytes-len-without-flush'
REQUIRED_PROBES = ['rollover_mid_history', 'scheduler_rollover', 'mfr_read_crosses_member_boundary',
                   'mfr_sized_read_after_seek0', 'rollover_copy_failed_state_intact',
                   'threads_with_private_files_rolled_over', 'writelines_argument_fails_part_way',
                   'reader_of_the_other_mode_built_before']
iou = None
_REAL_OS = None


def setup(root):
    global iou, _REAL_OS
    import os
    import boltons.ioutils as m
    iou = m
    _REAL_OS = os
    # threads that each use a file of their own are pre-empted at every bytecode of ioutils.py; the
    # instrumentation is switched on only for the duration of a threaded run
    from engines import threadsim
    threadsim.install_dormant(m)
    import copy
    del _MODULE_STATE[:], _MODULE_CACHES[:]
    for name, val in list(vars(m).items()):
        if name.startswith('__'):
            continue
        if type(val) in (dict, list, set):
            _MODULE_STATE.append((val, copy.copy(val)))
        elif callable(getattr(val, 'cache_clear', None)):
            _MODULE_CACHES.append(val)


_MODULE_STATE = []      # (container, pristine copy) for every mutable module-level container of ioutils
_MODULE_CACHES = []     # module-level functions with an lru_cache


def _reset_module_state():
    """A run is a function of its case: whatever the module remembers between calls (memo tables, caches) is put
    back to its state at import before every case; histories that matter are part of the case itself."""
    for cont, pristine in _MODULE_STATE:
        if cont != pristine:
            if isinstance(cont, list):
                cont[:] = pristine
            else:
                cont.clear()
                cont.update(pristine)
    for fn in _MODULE_CACHES:
        fn.cache_clear()


class DualFile:
    """One wrapper class for text-mode and binary-mode files (what tempfile.NamedTemporaryFile, SpooledTemporaryFile
    or codecs.StreamReaderWriter are): only the instance knows which it is."""

    def __init__(self, inner):
        self._f = inner
        if isinstance(inner, io.StringIO):
            self.encoding = 'utf-8'

    def read(self, *a):
        return self._f.read(*a)

    def seek(self, *a):
        return self._f.seek(*a)

    def tell(self):
        return self._f.tell()

    def close(self):
        self._f.close()


class _OsProxy:
    def __init__(self, sim):
        self._sim = sim

    def fstat(self, fd):
        if fd in self._sim.fs.fds:
            self._sim.event('fstat', fd)
            return simfs.StatResult(self._sim.fs.inodes[self._sim.fs.fds[fd].ino])
        return _REAL_OS.fstat(fd)

    def __getattr__(self, name):
        val = getattr(_REAL_OS, name)
        if not callable(val) or name in ('strerror', 'fspath', 'fsencode', 'fsdecode', 'getpid'):
            return val
        sim = self._sim

        def routed(*a, **k):
            # a descriptor of the simulated temporary file must never reach the real kernel (the number may
            # belong to some real descriptor of this process): route it to the simulated os, which raises
            # Unsimulated for calls it does not model
            if a and isinstance(a[0], int) and not isinstance(a[0], bool) and a[0] in sim.fs.fds:
                return getattr(simfs.SimOS(sim), name)(*a, **k)
            return val(*a, **k)
        return routed


class _TempFactory:
    """ioutils.TemporaryFile replacement: anonymous simulated file, real BufferedRandom on top."""

    def __init__(self, sim, simos, bufsize):
        self.sim, self.simos, self.bufsize = sim, simos, bufsize
        self.made = 0

    def __call__(self, mode='w+b', buffering=-1, dir=None, **kw):
        self.made += 1
        name = '/sim/dir/tmp%d' % self.made
        fd = self.simos.open(name, _REAL_OS.O_RDWR | _REAL_OS.O_CREAT | _REAL_OS.O_EXCL, 0o600)
        self.simos.unlink(name)
        # the write-back size is the seeded knob unless the caller asked for a particular buffering itself
        return self.simos.fdopen(fd, 'w+b', self.bufsize if buffering in (-1, None) else buffering)


TEXT_ALPHA = ['a', 'b', 'c', ' ', '\n', '\n', '\n', '\r\n', '\r', 'é', '—', '\U0001F600', 'ß', '日',
              '\x85', '\u2028', '\x0b', '\x0c', '\x1c']
BYTE_ALPHA = [b'a', b'b', b'\n', b'\n', b'\r\n', b'\r', b'\x00', b'\xff', b'xyz']


# code points at the edges of the UTF-8 length classes and of its byte ranges (lead bytes C2/DF/E0/EF/F0/F4,
# continuation bytes 80 and BF): what a hand-written byte-level shortcut gets wrong
TEXT_EDGES = ['\x7f', '\x80', '\xbf', '\xff', '\u07ff', '\u0800', '\ufeff', '\ufffd', '\uffff', '\U00010000', '\U0010ffff',
              '\u0fff', '\u1000', '\U0003ffff', '\U00040000']


def _chunk(rng, text, n):
    if text:
        if rng.random() < 0.15:
            return ''.join(rng.choice(TEXT_EDGES) if rng.random() < 0.4 else rng.choice(TEXT_ALPHA) for _ in range(n))
        return ''.join(rng.choice(TEXT_ALPHA) for _ in range(n))
    return b''.join(rng.choice(BYTE_ALPHA) for _ in range(n)).hex()


def _gen_threads(rng):
    """Two or three threads, each with a spooled file of its own (nothing is shared by the callers)."""
    text = rng.random() < 0.5
    threads, sizes = [], []
    for t in range(rng.choice([2, 2, 3])):
        ops = [['write', _chunk(rng, text, rng.choice([1, 3, 7, 20, 50]))] for _ in range(rng.randint(1, 4))]
        if rng.random() < 0.5:
            ops.insert(rng.randint(1, len(ops)), ['getvalue'])
        threads.append(ops)
        sizes.append(rng.choice([1, 5, 16, 40]))
    return {'mode': 'threads-text' if text else 'threads-bytes', 'threads': threads, 'max_size': sizes,
            'bufsize': rng.choice([1, 8, 8192]), 'chunk': rng.choice([21333, 7, 3]),
            'sched': {'kind': 'random', 'seed': rng.getrandbits(32), 'p': rng.choice([0.02, 0.1, 0.3])}}


def gen_case(rng, tier):
    r0 = rng.random()
    if r0 < 0.03:
        return _gen_threads(rng)
    if rng.random() < 0.2:
        return _gen_mfr(rng)
    text = rng.random() < 0.6
    ops = []
    length = 0          # code points / bytes of data so far (tracked approximately; run_case is exact)
    nops = rng.randint(1, 25)
    for _ in range(nops):
        r = rng.random()
        if r < 0.04 and ops:
            # several appending writes through writelines(), from a list or from a one-shot generator
            ops.append(['writelines', [_chunk(rng, text, rng.choice([0, 1, 3, 7])) for _ in range(rng.randint(0, 4))],
                        rng.choice(['list', 'gen', 'tuple', 'list', 'gen', 'tuple', 'bad_last', 'gen_raises'])])
            if rng.random() < 0.2:
                ops[-1] = ops[-1][:2] + ['file_src', rng.choice([1, 1 << 40]), rng.choice([0, 1, 1, 2])]
        elif r < 0.28 or not ops:
            n = rng.choice([0, 1, 2, 3, 5, 9, 17]) if rng.random() < 0.9 else rng.randint(20, 60)
            ops.append(['write', _chunk(rng, text, n)])
        elif r < 0.42:
            ops.append(['read', rng.choice([1, 2, 3, 5, 8, 100, 1, 2, 3, 5, 8, 100, 0, 1 << 20])])
        elif r < 0.48:
            ops.append(['read', rng.choice([-1, -1, 'm1'])])      # read() / read(-1)
        elif r < 0.58:
            ops.append(['readline'])
        elif r < 0.62:
            ops.append(['readlines'] if rng.random() < 0.8 else ['readlines', rng.choice([-1, 0])])
        elif r < 0.68:
            ops.append(['next'] if rng.random() < 0.7 else ['iternext'])
        elif r < 0.71:
            ops.append(['list'])
        elif r < 0.82:
            ops.append(['seek', rng.random()])          # fraction of the current length
        elif r < 0.85:
            # the same positions reached relative to the current position or to the end
            ops.append(['seekrel', rng.random(), rng.choice([1, 2])])
        elif r < 0.90:
            ops.append(['tell'])
        elif r < 0.95:
            ops.append(['getvalue'])
        else:
            ops.append(['len'])
    if rng.random() < 0.015:
        # scale: more data than READ_CHUNK_SIZE / the temp file's buffer, multi-byte characters near the edges
        big = rng.choice([21330, 21333, 21334, 30000, 43000])
        filler = ('a' * (big - 3) + 'é—日') if text else (b'a' * big).hex()
        ops = [['write', filler], ['write', _chunk(rng, text, 5)]] + ops[:12]
        # ... and requests beyond the small-integer cache / a typical line buffer
        ops = [(['read', rng.choice([256, 257, 300, 1000, 4096, 8193])] if op[0] == 'read' and isinstance(op[1], int)
                and op[1] > 0 and rng.random() < 0.6 else op) for op in ops]
        nops = len(ops)
    replicas = [{'max_size': 1 << 40, 'bufsize': 8192, 'roll_at': None},
                {'max_size': 1, 'bufsize': rng.choice([1, 8, 64, 8192]), 'roll_at': None},
                {'max_size': rng.choice([rng.randint(2, 40), 21333, 21400, 50000]), 'bufsize': rng.choice([1, 8, 64, 8192]), 'roll_at': None},
                {'max_size': 1 << 40, 'bufsize': rng.choice([1, 8, 64, 8192]),
                 'roll_at': rng.randint(0, nops), 'roll_how': rng.choice(['rollover', 'fileno'])}]
    if rng.random() < 0.2 and not any(op[0] == 'write' and len(op[1]) > 2000 for op in ops):
        # the kernel accepts only a few bytes per physical write (a legal short write every time): a buffered
        # temporary file hides that, anything that writes to the descriptor or a raw file must loop
        replicas.append({'max_size': rng.choice([1, 5, rng.randint(2, 40)]), 'bufsize': rng.choice([1, 8, 64, 8192]),
                         'roll_at': rng.choice([None, None, rng.randint(0, nops)]), 'roll_how': 'rollover',
                         'short_writes': rng.choice([1, 3, 7])})
    if rng.random() < 0.25:
        # fault injection: the disk is full for the first physical write of the temporary file (one-shot)
        replicas.append({'max_size': rng.choice([rng.randint(2, 40), 5, 9]), 'bufsize': rng.choice([1, 8, 64, 8192]),
                         'roll_at': rng.choice([None, None, rng.randint(0, nops)]), 'roll_how': 'rollover', 'enospc': True})
    if any(rc.get('enospc') for rc in replicas):
        # (the faulted replica reasons about the items of a writelines() one by one)
        ops = [(op[:2] + ['list']) if (op[0] == 'writelines' and op[2] == 'file_src') else op for op in ops]
    return {'mode': 'text' if text else 'bytes', 'ops': ops, 'replicas': replicas,
            'chunk': 21333 if nops and ops[0][0] == 'write' and len(ops[0][1]) > 20000 else rng.choice([21333, 21333, 7, 3]),
            'getvalue_every_step': rng.random() < 0.3}


def _gen_mfr(rng):
    text = rng.random() < 0.5
    n = rng.randint(0, 30)
    big = rng.random() < 0.05
    if big:
        n = rng.choice([300, 600, 1500, 3000])      # members much longer than the requested read sizes
    content = _chunk(rng, text, n)
    if not text:
        content_len = len(content) // 2
    else:
        content_len = len(content)
    k = rng.randint(1, 5)
    if rng.random() < 0.02:
        k = rng.choice([300, 1100, 2500])              # scale: very many (mostly empty or tiny) members
    cuts = sorted(rng.randint(0, content_len) for _ in range(k - 1))
    kinds = [rng.choice(['io', 'spooled', 'spooled-rolled', 'io', 'spooled', 'spooled-rolled', 'nested', 'dual'])
             for _ in range(k)] if k <= 5 else ['io'] * k      # 'nested': the member is itself a MultiFileReader
    ops = []
    for _ in range(rng.randint(1, 10)):
        r = rng.random()
        if r < 0.6:
            ops.append(['read', rng.choice([1, 2, 3, 5, 8, 13, 40] if not big else [100, 255, 256, 257, 300, 1000, 4096])])
        elif r < 0.8:
            ops.append(['read', None])
        else:
            ops.append(['seek0'])
    case = {'mode': 'mfr-text' if text else 'mfr-bytes', 'content': content, 'cuts': cuts, 'kinds': kinds,
            'ops': ops, 'bufsize': rng.choice([1, 8, 8192])}
    if rng.random() < 0.25:
        case['prior_reader'] = True
    if rng.random() < 0.2 and k <= 5:
        # the members were just written/partly read by the caller: they are not at position 0, and the
        # documented way to start over is seek(0)
        case['member_pos'] = [rng.choice(['end', 'end', 'mid', 0]) for _ in range(k)]
        case['ops'] = [['seek0']] + ops
    return case


def fixed_cases(tier):
    return [
        {'mode': 'text', 'ops': [['write', 'aé—b\nxy'], ['seek', 0.3], ['len'], ['tell'], ['read', 2]],
         'replicas': [{'max_size': 1 << 40, 'bufsize': 8192, 'roll_at': None}, {'max_size': 1, 'bufsize': 8, 'roll_at': None}],
         'chunk': 21333, 'getvalue_every_step': False},
        {'mode': 'bytes', 'ops': [['write', b'ab\ncd'.hex()], ['len'], ['seek', 0.5], ['read', 2], ['write', b'zz'.hex()]],
         'replicas': [{'max_size': 1 << 40, 'bufsize': 8192, 'roll_at': None}, {'max_size': 3, 'bufsize': 8192, 'roll_at': None}],
         'chunk': 21333, 'getvalue_every_step': False},
        {'mode': 'mfr-bytes', 'content': b'abcde'.hex(), 'cuts': [2, 4], 'kinds': ['io', 'io', 'io'],
         'ops': [['read', 3], ['seek0'], ['read', 3], ['read', None]], 'bufsize': 8192},
    ]


def case_size(case):
    if 'threads' in case:
        return sum(len(t) + sum(len(o[1]) for o in t if o[0] == 'write') for t in case['threads'])
    return len(case['ops']) + sum(len(o[1]) for o in case['ops'] if o[0] == 'write') + len(case.get('replicas', [])) \
        + len(case.get('content', '')) // 2


def describe_case(case):
    return case


# ------------------------------------------------------------------------------------------

def _install(sim, bufsize, fac=None):
    if fac is None:
        simos = simfs.SimOS(sim)
        fac = _TempFactory(sim, simos, bufsize)
    iou.TemporaryFile = fac
    iou.os = _OsProxy(sim)
    return fac


_ITERS = {}


def _do(f, op, text, ref_len):
    """Apply one op to file object f. -> (kind, value)"""
    name = op[0]
    try:
        if name == 'write':
            data = op[1] if text else bytes.fromhex(op[1])
            return ('ok', f.write(data))
        if name == 'writelines':
            items = [x if text else bytes.fromhex(x) for x in op[1]]
            if op[2] == 'file_src':
                # the argument is another file object of the same family, part of which was read already: like any
                # iterable of lines it contributes what is left of it, and is left at its end
                if isinstance(f, (io.BytesIO, io.StringIO)):
                    src = io.StringIO() if text else io.BytesIO()
                else:
                    src = type(f)(max_size=op[3])
                for x in items:
                    src.write(x)
                src.seek(0)
                for _ in range(op[4]):
                    src.readline()
                f.writelines(src)
                pos = src.tell()
                src.close()
                return ('ok', ('source left at', pos))
            if op[2] in ('bad_last', 'gen_raises'):
                # an argument that fails part-way: like io, the lines before the failure are written
                if op[2] == 'bad_last':
                    arg = items + [None]
                else:
                    def arg():
                        for x in items:
                            yield x
                        raise LookupError('line source failed')
                    arg = arg()
                try:
                    f.writelines(arg)
                except (TypeError, LookupError) as e:
                    return ('exc', type(e).__name__)          # (the message differs between io and the spooled classes)
                return ('ok', 'writelines() accepted a failing argument')
            arg = items if op[2] == 'list' else (tuple(items) if op[2] == 'tuple' else (x for x in items))
            return ('ok', f.writelines(arg))
        if name == 'read':
            if op[1] == 'm1':
                return ('ok', f.read(-1))
            return ('ok', f.read(op[1]) if op[1] != -1 else f.read())
        if name == 'readline':
            return ('ok', f.readline())
        if name == 'readlines':
            if len(op) > 1:
                return ('ok', f.readlines(op[1]))       # a hint <= 0 means "no limit", like no hint at all
            return ('ok', f.readlines())
        if name == 'next':
            try:
                return ('ok', next(f))
            except StopIteration:
                return ('stop', None)
        if name == 'list':
            return ('ok', list(f))
        if name == 'iternext':
            # one iterator object per file, obtained once with iter(f) and kept alive across writes,
            # seeks and the rollover (a for-loop that is resumed later)
            it = _ITERS.get(id(f))
            if it is None:
                it = _ITERS[id(f)] = iter(f)
            try:
                return ('ok', next(it))
            except StopIteration:
                return ('stop', None)
        if name == 'seek':
            return ('ok', f.seek(int(round(op[1] * ref_len))))
        if name == 'seekrel':
            # target position inside the data, expressed relative to the current position (whence 1, forward)
            # or to the end (whence 2).  io.BytesIO takes signed offsets; SpooledStringIO documents
            # "relative to current position" (forward) and measures SEEK_END offsets back from the end.
            is_ref = isinstance(f, (io.BytesIO, io.StringIO))
            pos = f.tell()
            if op[2] == 1:
                target = pos + int(round(op[1] * (ref_len - pos)))
                if is_ref and text:
                    return ('ok', f.seek(target))
                return ('ok', f.seek(target - pos, 1))
            target = int(round(op[1] * ref_len))
            if is_ref and text:
                return ('ok', f.seek(target))
            return ('ok', f.seek((ref_len - target) if text else (target - ref_len), 2))
        if name == 'tell':
            return ('ok', f.tell())
        if name == 'getvalue':
            return ('ok', f.getvalue())
        if name == 'len':
            return ('ok', len(f) if not isinstance(f, (io.BytesIO, io.StringIO)) else len(f.getvalue()))
        raise AssertionError(name)
    except Exception as e:
        return ('exc', '%s: %s' % (type(e).__name__, str(e)[:80]))


def _run_threads(case):
    from engines import threadsim
    out = core.Outcome()
    log = core.EventLog(keep=False)
    text = case['mode'] == 'threads-text'
    iou.READ_CHUNK_SIZE = case.get('chunk', 21333)
    nthreads = len(case['threads'])
    total = sum(len(op[1]) for t in case['threads'] for op in t if op[0] == 'write')
    sched = threadsim.Scheduler(threadsim.make_policy(case['sched'], nthreads), log, step_cap=400000 + 4000 * total)
    fs = simfs.SimFS()
    sim = simfs.Sim(fs, simfs.Plan(), None, blksize=8192)
    fac = _install(sim, case['bufsize'])
    cls = iou.SpooledStringIO if text else iou.SpooledBytesIO
    files = [cls(max_size=m) for m in case['max_size']]
    seen = [[] for _ in range(nthreads)]

    def program(tid, ops):
        def run():
            f = files[tid]
            for i, op in enumerate(ops):
                sched.yield_point(('invoke', tid, i))
                r = _do(f, op, text, 0)
                seen[tid].append((op, r))
                sched.yield_point(('return', tid, i))
        return run

    try:
        for tid, ops in enumerate(case['threads']):
            sched.spawn(program(tid, ops))
        threadsim.tracing(iou, True)
        try:
            reason = sched.run()
        finally:
            threadsim.tracing(iou, False)
        out.steps = sched.step
        out.sim_time = float(sched.step)
        if reason in ('deadlock', 'no-progress'):
            out.fail(reason, sched.step, 'threads that each use a spooled file of their own: %s' % reason, mode=case['mode'])
        else:
            for tid, ops in enumerate(case['threads']):
                ref = io.StringIO() if text else io.BytesIO()
                for (op, got) in seen[tid]:
                    want = _do(ref, op, text, 0)
                    if op[0] == 'write':
                        if got[0] != 'ok':
                            out.fail('spooled-diverges', tid, 'thread %d (own file, max_size=%d) %r: got %r'
                                     % (tid, case['max_size'][tid], op, got), mode=case['mode'], op=op[0])
                            break
                    elif got != want:
                        out.fail('spooled-diverges', tid, 'thread %d (own file, max_size=%d) %r: got %r, io reference %r, while other '
                                 'threads used files of their own' % (tid, case['max_size'][tid], op, got, want),
                                 mode=case['mode'], op=op[0])
                        break
                if out.violation:
                    break
                g = _do(files[tid], ['getvalue'], text, 0)
                if g != ('ok', ref.getvalue()):
                    out.fail('content-diverges', tid, 'thread %d (own file, max_size=%d): final content %r, io reference %r, while '
                             'other threads used files of their own' % (tid, case['max_size'][tid], g, ref.getvalue()),
                             mode=case['mode'], op='getvalue')
                    break
            if out.violation is None and fac.made and sched.switches:
                out.probe('threads_with_private_files_rolled_over')
                out.nontrivial.append(core.h64([case['mode'], case['threads'], case['max_size'],
                                                [(f_, t_) for _s, f_, t_, _w in sched.switches][:40]]))
    finally:
        for f in files:
            try:
                f.close()
            except Exception:
                pass
        sim.dispose()
    out.digest = log.digest()
    return out


def run_case(case):
    _reset_module_state()
    if case['mode'].startswith('threads'):
        return _run_threads(case)
    if case['mode'].startswith('mfr'):
        return _run_mfr(case)
    out = core.Outcome()
    log = core.EventLog(keep=False)
    text = case['mode'] == 'text'
    _ITERS.clear()
    iou.READ_CHUNK_SIZE = case.get('chunk', 21333)
    ref = io.StringIO() if text else io.BytesIO()
    cls = iou.SpooledStringIO if text else iou.SpooledBytesIO
    reps = []
    for rc in case['replicas']:
        fs = simfs.SimFS()
        plan = simfs.Plan(faults={('raw.write', 0): ('errno', errno.ENOSPC)}) if rc.get('enospc') else simfs.Plan()
        sim = simfs.Sim(fs, plan, None, blksize=8192)
        if rc.get('short_writes'):
            sim.persistent['raw.write'] = ('short', rc['short_writes'])
        reps.append({'cfg': rc, 'sim': sim, 'f': None, 'rolled_at': None, 'dropped': False})
    for rp in reps:
        rp['fac'] = _install(rp['sim'], rp['cfg']['bufsize'])
        rp['f'] = cls(max_size=rp['cfg']['max_size'])
    touched_before_roll = False
    nontriv = False
    special = False
    read_after_seek = False
    seeked = False
    steps = 0
    try:
        for i, op in enumerate(case['ops']):
            name = op[0]
            ref_len = len(ref.getvalue())
            if name in ('write', 'writelines') and ref.tell() != ref_len:
                continue                  # only appending writes are in the statement
            if name == 'write' and text and any(ord(ch) > 127 or ch == '\r' for ch in op[1]):
                special = True
            if name in ('seek', 'seekrel'):
                seeked = True
            if name in ('read', 'readline', 'readlines', 'next', 'iternext', 'list') and seeked:
                read_after_seek = True
            faulted = any(rp['cfg'].get('enospc') and not rp['dropped'] for rp in reps)
            ref_pre = (ref.getvalue(), ref.tell()) if faulted else None
            want = _do(ref, op, text, ref_len)
            log.add('op', i, name, repr(want)[:200])
            for ri, rp in enumerate(reps):
                if rp['dropped']:
                    continue
                _install(rp['sim'], rp['cfg']['bufsize'], rp['fac'])
                f = rp['f']
                if rp['cfg'].get('enospc'):
                    r = _faulted_step(rp, f, op, i, text, ref_len, ref_pre, out)
                    if r == 'dropped':
                        continue
                    if r is not None:
                        return _fail(out, log, 'rollover-failure-lost-data', i, case, ri, op, r[0], r[1], steps)
                # "has rolled over" is observed at the seam (a temporary file was requested), not through
                # a private attribute of the object
                if rp['cfg'].get('roll_at') == i and not rp['fac'].made:
                    if rp['cfg'].get('roll_how') == 'fileno':
                        f.fileno()
                    else:
                        f.rollover()
                    out.fault('scheduler_rollover')
                got = rp.pop('pre_done', None) or _do(f, rp.pop('retry_op', op), text, ref_len)
                steps += 1
                if rp['fac'].made and rp['rolled_at'] is None:
                    rp['rolled_at'] = i
                    if i > 0:
                        out.probe('rollover_mid_history')
                if name == 'writelines' and op[2] in ('bad_last', 'gen_raises', 'file_src'):
                    if got != want:
                        return _fail(out, log, 'spooled-diverges', i, case, ri, op, got, want, steps)
                    out.probe('writelines_from_another_file' if op[2] == 'file_src' else 'writelines_argument_fails_part_way')
                elif name in ('write', 'writelines'):
                    if got[0] != 'ok':
                        return _fail(out, log, 'spooled-diverges', i, case, ri, op, got, want, steps)
                    if ri and got != first_write:
                        return _fail(out, log, 'spooled-diverges', i, case, ri, op, got, first_write, steps)
                    first_write = got
                elif got != want:
                    return _fail(out, log, 'spooled-diverges', i, case, ri, op, got, want, steps)
                # position after every step
                spent = bool(rp['sim'].fired)
                t = _do(f, ['tell'], text, 0)
                if t != ('ok', ref.tell()):
                    if rp['sim'].fired and not spent:
                        rp['dropped'] = True          # the injected disk-full fired inside the harness's own probe
                        continue
                    return _fail(out, log, 'position-diverges', i, case, ri, op, t, ('ok', ref.tell()), steps)
                if case.get('getvalue_every_step'):
                    g = _do(f, ['getvalue'], text, 0)
                    if g != ('ok', ref.getvalue()):
                        if rp['sim'].fired and not spent:
                            rp['dropped'] = True
                            continue
                        return _fail(out, log, 'content-diverges', i, case, ri, op, g, ('ok', ref.getvalue()), steps)
                if rp['sim'].fired and not spent:
                    rp['dropped'] = True              # fired in a probe without visible effect: stop judging anyway
        # end: same content and position
        for ri, rp in enumerate(reps):
            if rp['dropped']:
                continue
            _install(rp['sim'], rp['cfg']['bufsize'], rp['fac'])
            if rp['cfg'].get('enospc') and not rp['sim'].fired:
                continue                              # the fault is still pending: the final probes would trip it
            g = _do(rp['f'], ['getvalue'], text, 0)
            if g != ('ok', ref.getvalue()):
                return _fail(out, log, 'content-diverges', len(case['ops']), case, ri, ['getvalue'], g,
                             ('ok', ref.getvalue()), steps)
            t = _do(rp['f'], ['tell'], text, 0)
            if t != ('ok', ref.tell()):
                return _fail(out, log, 'position-diverges', len(case['ops']), case, ri, ['getvalue'], t,
                             ('ok', ref.tell()), steps)
    finally:
        for rp in reps:
            try:
                rp['f'].close()
            except Exception:
                pass
            rp['sim'].dispose()
    out.steps = steps
    out.sim_time = float(steps)
    out.digest = log.digest()
    nontriv = any(rp['rolled_at'] is not None and 0 < rp['rolled_at'] < len(case['ops']) - 1 for rp in reps) \
        and (special if text else read_after_seek)
    if nontriv:
        out.nontrivial.append(core.h64([case['mode'], case['ops'], case['replicas'], case.get('chunk')]))
    return out


def _faulted_step(rp, f, op, i, text, ref_len, ref_pre, out):
    """Replica whose temporary file meets a full disk at its first physical write.  If that happens while the
    content is being copied to the new temporary file (the operation that requested it), the operation may fail,
    but then the object must still hold everything written before, at the same position, and go on working;
    the fault is one-shot, so the step is then executed again by the caller.  A fault that fires at any other
    moment hits data the temporary file had already accepted: nothing is demanded, the replica is dropped.
    -> None (go on) | 'dropped' | (got, want)"""
    sim, fac = rp['sim'], rp['fac']
    if sim.fired:
        return None                                  # the fault is spent
    made_before = bool(fac.made)
    exc = None
    try:
        if rp['cfg'].get('roll_at') == i and not fac.made:
            f.rollover()
            out.fault('scheduler_rollover')
    except OSError as e:
        exc = e
    if exc is None and not sim.fired:
        got = _do(f, op, text, ref_len)
        if not sim.fired:
            rp['pre_done'] = got                     # already executed: the caller must not repeat it
            return None
        if got[0] != 'exc' or made_before or not fac.made:
            rp['dropped'] = True
            out.probe('enospc_outside_rollover')
            return 'dropped'
    elif exc is None:
        rp['dropped'] = True                         # fired while rolling over explicitly without raising
        return 'dropped'
    out.fault('enospc_during_rollover_copy')
    g, t = _do(f, ['getvalue'], text, 0), _do(f, ['tell'], text, 0)
    allowed = [(('ok', ref_pre[0]), ('ok', ref_pre[1]))]
    if op[0] == 'writelines' and exc is None:
        # writelines is a sequence of writes: those before the one that hit the full disk have happened
        acc, pos = ref_pre[0], ref_pre[1]
        for item in op[1]:
            piece = item if text else bytes.fromhex(item)
            acc, pos = acc + piece, pos + len(piece)
            allowed.append((('ok', acc), ('ok', pos)))
    if (g, t) not in allowed:
        return ((g, t), allowed[0])
    k = allowed.index((g, t))
    if k > 0:
        rp['retry_op'] = ['writelines', op[1][k:], op[2]]      # the caller writes the rest
    out.probe('rollover_copy_failed_state_intact')
    return None


def _fail(out, log, cls, i, case, ri, op, got, want, steps):
    rc = case['replicas'][ri]
    out.fail(cls, i, '%s replica %d (max_size=%r, write-back %r, roll_at=%r) at step %d %r: got %r, io reference %r'
             % (case['mode'], ri, rc['max_size'], rc['bufsize'], rc.get('roll_at'), i, op, got, want),
             mode=case['mode'], op=op[0])
    out.steps = steps
    out.digest = log.digest()
    return out


def _run_mfr(case):
    out = core.Outcome()
    log = core.EventLog(keep=False)
    text = case['mode'] == 'mfr-text'
    content = case['content'] if text else bytes.fromhex(case['content'])
    cuts = [min(c, len(content)) for c in case['cuts']]
    bounds = [0] + sorted(cuts) + [len(content)]
    parts = [content[a:b] for a, b in zip(bounds, bounds[1:])]
    kinds = (list(case['kinds']) + ['io'] * len(parts))[:len(parts)]
    fs = simfs.SimFS()
    sim = simfs.Sim(fs, simfs.Plan(), None)
    _install(sim, case.get('bufsize', 8192))
    members = []
    nested_objs = []
    if case.get('prior_reader'):
        # history: the process built (and used) a reader over members of the same classes in the *other* mode before
        try:
            prior = iou.MultiFileReader(DualFile(io.BytesIO(b'earlier') if text else io.StringIO('earlier')),
                                        io.BytesIO(b' reader') if text else io.StringIO(' reader'))
            prior.read()
        except Exception as e:
            out.fail('mfr-wrong', 0, 'an earlier MultiFileReader over %s members raised %r' % ('bytes' if text else 'text', e),
                     mode=case['mode'], op='init')
            return out
        out.probe('reader_of_the_other_mode_built_before')
    for part, kind in zip(parts, kinds):
        if kind == 'io':
            m = io.StringIO(part) if text else io.BytesIO(part)
        elif kind == 'dual':
            m = DualFile(io.StringIO(part) if text else io.BytesIO(part))
        elif kind == 'nested' and not text:
            h = len(part) // 2
            subs = [io.BytesIO(part[:h]), io.BytesIO(part[h:])]
            nested_objs.extend(subs)        # (closed at the end with the others)
            m = iou.MultiFileReader(*subs)
        elif kind == 'nested':
            m = io.StringIO(part)
        else:
            m = (iou.SpooledStringIO if text else iou.SpooledBytesIO)(max_size=1 if kind == 'spooled-rolled' else 1 << 40)
            m.write(part)
            m.seek(0)
        mp = (case.get('member_pos') or [])
        where = mp[len(members)] if len(members) < len(mp) else 0
        if isinstance(m, iou.MultiFileReader):
            where = 0
        if where == 'end':
            m.seek(len(part))
        elif where == 'mid':
            m.seek(len(part) // 2)
        members.append(m)
    pos = 0
    steps = 0
    crossed = after_seek = False
    seeked = False
    try:
        try:
            mfr = iou.MultiFileReader(*members)
        except Exception as e:
            out.fail('mfr-wrong', 0, 'MultiFileReader(%s) raised %r' % (kinds, e), mode=case['mode'], op='init')
            return out
        empty = '' if text else b''
        ops = list(case['ops'])
        if any(w not in (0, None) for w in (case.get('member_pos') or [])) and (not ops or ops[0][0] != 'seek0'):
            # members that are not at position 0 must be rewound first (the documented way to start over);
            # enforced here, not only in the generator, so that minimisation cannot drop the seek
            ops = [['seek0']] + ops
        for i, op in enumerate(ops):
            steps += 1
            try:
                if op[0] == 'seek0':
                    mfr.seek(0)
                    pos = 0
                    seeked = True
                    log.add('seek0')
                    continue
                n = op[1]
                got = mfr.read(n) if n is not None else mfr.read()
            except Exception as e:
                out.fail('mfr-wrong', i, '%r raised %r' % (op, e), mode=case['mode'], op=op[0])
                break
            want = content[pos:pos + n] if n is not None else content[pos:]
            log.add('read', n, repr(got))
            if got != want:
                out.fail('mfr-wrong', i,
                         'members %r (%s), after %r: %r returned %r, concatenation gives %r'
                         % (parts, kinds, ops[:i], op, got, want), mode=case['mode'], op=op[0])
                break
            if n is not None:
                for b in bounds[1:-1]:
                    if pos < b < pos + len(got):
                        crossed = True
                if seeked:
                    after_seek = True
            pos += len(got)
    finally:
        for m in members + nested_objs:
            try:
                m.close()
            except Exception:
                pass
        sim.dispose()
    if crossed:
        out.probe('mfr_read_crosses_member_boundary')
    if after_seek:
        out.probe('mfr_sized_read_after_seek0')
    if crossed or after_seek:
        out.nontrivial.append(core.h64([case['mode'], case['content'], case['cuts'], case['ops']]))
    out.steps = steps
    out.sim_time = float(steps)
    out.digest = log.digest()
    return out


def shrink(case, fails):
    if case['mode'].startswith('threads'):
        from simkit.core import ddmin
        best = [dict(case)]

        def fss(cand):
            for seed in range(10):
                for p in (0.1, 0.3, 0.02):
                    c2 = dict(cand, sched={'kind': 'random', 'seed': seed, 'p': p})
                    if fails(c2):
                        best[0] = c2
                        return True
            return False
        for t in range(len(case['threads'])):
            def test(sub, t=t):
                ths = [list(x) for x in best[0]['threads']]
                ths[t] = list(sub)
                return fss(dict(best[0], threads=ths))
            ddmin(list(best[0]['threads'][t]), test)
        return best[0]
    c = shrinkers.shrink_list_field(case, 'ops', fails)
    if 'replicas' in c:
        c = shrinkers.shrink_list_field(c, 'replicas', fails, min_len=1)
        for simple in ({'chunk': 21333}, {'getvalue_every_step': False}):
            c = shrinkers.try_set(c, simple, fails)
        # shorten written data
        for i, op in enumerate(c['ops']):
            if op[0] == 'write' and len(op[1]) > 1:
                from simkit.core import ddmin
                if c['mode'] == 'text':
                    units = list(op[1])
                    join = ''.join
                else:
                    units = [op[1][j:j + 2] for j in range(0, len(op[1]), 2)]
                    join = ''.join

                def test(sub, i=i):
                    c2 = dict(c)
                    c2['ops'] = list(c['ops'])
                    c2['ops'][i] = ['write', join(sub)]
                    return fails(c2)
                small = ddmin(units, test)
                if len(small) < len(units):
                    c = dict(c)
                    c['ops'] = list(c['ops'])
                    c['ops'][i] = ['write', join(small)]
    else:
        c = shrinkers.shrink_list_field(c, 'cuts', fails)
        c = shrinkers.try_set(c, {'kinds': ['io'] * 5}, fails)
    return c
