"""Shared harness for C04/C05: run one ``with atomic_save(...)`` workload against simfs
under a plan (crash point and/or faults) and report what happened."""
import os
import random

from engines import simfs
from simkit.core import Unsimulated as core_Unsimulated

fu = None        # boltons.fileutils
DIR = "/sim/dir"
SNAPSHOT_LINK = 'snapshot-of-dest.lnk'
_VERIF_ROOT = os.path.dirname(os.path.dirname(os.path.abspath(__file__)))


class BodyError(Exception):
    """Raised by the with-block body when the workload says so."""


class FalsyError(Exception):
    """An exception whose instances are falsy (an empty error collection)."""

    def __bool__(self):
        return False

    def __len__(self):
        return 0


class BodyAbort(BaseException):
    """A KeyboardInterrupt/SystemExit-like BaseException raised by the body."""


def setup(root):
    global fu
    import boltons.fileutils as m
    fu = m


def fresh_module():
    """Re-execute the module under test so that no module-level state (caches, memoised
    environment reads) leaks from one workload into the next: a run is a function of its case."""
    import importlib
    import os as _real_os
    import fcntl as _real_fcntl
    fu.os = _real_os
    fu.fcntl = _real_fcntl
    for name in ('open', 'shutil', 'tempfile', 'filecmp'):
        fu.__dict__.pop(name, None)
    importlib.reload(fu)


def paths(case):
    dest = case.get('dest_name', 'dest.txt')
    dest_abs = DIR + '/' + dest
    dest_arg = dest if case.get('dest_rel') else dest_abs
    if case.get('part_file'):
        part_abs = DIR + '/' + case['part_file']
    else:
        part_abs = dest_abs + '.part'
    return dest_arg, dest_abs, part_abs


def name_too_long(case):
    """Does the destination or the part file have a name longer than NAME_MAX (255 bytes)?  Then the kernel
    refuses the save (ENAMETOOLONG) unless the implementation picks a shorter part name."""
    _a, dest_abs, part_abs = paths(case)
    return any(len(p.rsplit('/', 1)[1].encode('utf-8')) > 255 for p in (dest_abs, part_abs))


def new_content(case):
    """Bytes the destination must hold after a completed save (writes before a raise)."""
    out = bytearray()
    for step in case['body']:
        if step[0] == 'write':
            out.extend(step[1].encode('utf-8') if case.get('text_mode') else bytes.fromhex(step[1]))
        elif step[0] == 'raise':
            break
    return bytes(out)


def full_content(case):
    """Bytes of all the writes of the body, also those an interruption prevented."""
    out = bytearray()
    for step in case['body']:
        if step[0] == 'write':
            out.extend(step[1].encode('utf-8') if case.get('text_mode') else bytes.fromhex(step[1]))
    return bytes(out)


def steps_before_raise(case):
    for i, step in enumerate(case['body']):
        if step[0] == 'raise':
            return i
    return len(case['body'])


def body_raises(case):
    return any(s[0] == 'raise' for s in case['body'])


DOCUMENTED_DEFAULTS = {'text_mode': False, 'overwrite': True, 'buffering': -1, 'overwrite_part': False, 'rm_part_on_exc': True}


def kwargs_of(case):
    kw = {}
    for k in ('text_mode', 'overwrite', 'part_file', 'buffering', 'file_perms', 'overwrite_part', 'rm_part_on_exc'):
        if k in case and case[k] is not None:
            if case.get('omit_defaults') and k in DOCUMENTED_DEFAULTS and case[k] == DOCUMENTED_DEFAULTS[k] \
                    and type(case[k]) is type(DOCUMENTED_DEFAULTS[k]):
                continue        # the caller relies on the documented default instead of spelling it out
            kw[k] = case[k]
    return kw


def body_step(f, step):
    """Every body step except 'write' (shared by the simulated, real-kernel and forked executions)."""
    if step[0] == 'flush':
        f.flush()
    elif step[0] == 'rewind':
        f.seek(0)                   # the part file is opened w+: a body may go back, e.g. to checksum
    elif step[0] == 'readback':
        f.seek(0)
        f.read()
    elif step[0] == 'close':
        f.close()                   # e.g. handed to a wrapper that closes what it wraps
    elif step[0] == 'raise':
        if len(step) > 1 and step[1] == 'base':
            raise BodyAbort('body interrupted')
        if len(step) > 1 and step[1] == 'falsy':
            raise FalsyError()
        raise BodyError('body failed')
    else:
        raise AssertionError(step)


def make_saver(case, dest):
    """The two public entry points: the atomic_save() function and the AtomicSaver class itself."""
    if case.get('entry') == 'class':
        return fu.AtomicSaver(dest, **kwargs_of(case))
    return fu.atomic_save(dest, **kwargs_of(case))


class Result:
    __slots__ = ('fs', 'sim', 'exc', 'crashed', 'entered', 'body_done', 'pre_inos', 'pre_state', 'other_thread')


WARM_BYTES = b'EARLIER SAVE BY THE SAME SAVER'
OTHER_CWD = '/sim'      # the parent of DIR: where the process goes when it changes directory
WARM_TEXT = 'EARLIER SAVE BY THE SAME SAVER'


def run_save(case, plan=None, log=None, hooks=None, fs=None, only_warmup=False):
    if case.get('ctx') == 'handler':
        # the caller saves from inside an exception handler (an error report, a state dump): an unrelated,
        # already caught exception is "being handled" (sys.exc_info() is set) for the whole save
        try:
            raise LookupError('unrelated and already caught')
        except LookupError:
            return run_save(dict(case, ctx=None), plan, log, hooks, fs, only_warmup)
    dest_arg, dest_abs, part_abs = paths(case)
    if fs is None:
        fs = simfs.SimFS(cwd=DIR, umask=case.get('umask', 0o022))
        if case.get('std_fds_closed'):
            fs.first_fd = 0          # a daemon that closed stdin/stdout/stderr: the next file opened gets descriptor 0
        for spec, path in ((case.get('dest_initial'), dest_abs), (case.get('part_initial'), part_abs)):
            if spec is None:
                continue
            if spec.get('symlink'):
                # the name is a symbolic link; its target exists iff 'data' is given
                fs.preload_symlink(path, spec['symlink'])
                if spec.get('data') is not None:
                    fs.preload(DIR + '/' + spec['symlink'], bytes.fromhex(spec['data']), spec['mode'])
            else:
                ino = fs.preload(path, bytes.fromhex(spec['data']), spec['mode'])
                if spec.get('hardlink'):
                    # the file has a second name (a cp -l snapshot, a hard-linked backup tree)
                    other = fs.abspath(DIR + '/' + SNAPSHOT_LINK)
                    fs.dir[other] = ino.ino
                    fs.initial_dir[other] = ino.ino
                    ino.nlink = 2
    sim = simfs.Sim(fs, plan, log, blksize=case.get('blksize', 8192))
    sim.watch = {dest_abs, part_abs}
    if hooks:
        sim.hooks.update(hooks(sim))
    simos = simfs.SimOS(sim)
    fu.os = simos
    fu.fcntl = simfs.SimFcntl(sim)
    fu.open = simfs.make_builtin_open(simos)
    # names a re-implementation might reach for (shutil.* are module globals of fileutils already)
    shim = simfs.SimShutil(simos)
    fu.shutil = shim
    fu.copy2, fu.copystat = shim.copy2, shim.copystat
    if hasattr(fu, 'move'):
        fu.move = shim.move        # (a name the module imported from shutil)
    fu.tempfile = simfs.SimTempfile(simos)
    fu.filecmp = simfs.SimFilecmp(simos)
    for kind, e in (case.get('env') or {}).items():
        sim.persistent[kind] = ('errno', e)
    r = Result()
    r.fs, r.sim, r.exc, r.crashed, r.entered, r.body_done = fs, sim, None, False, False, False
    saver = None
    try:
        saver = make_saver(case, dest_arg)
        sim.current_saver = saver           # (a simulated other thread may try to enter the same object)
        # instance reuse: the same AtomicSaver object completed earlier saves (not judged, no faults)
        sim.armed = False
        if case.get('reuse') and case.get('warm_umask') is not None:
            fs.umask = case['warm_umask']       # the process ran under another umask back then
        for _w in range(case.get('reuse', 0)):
            with saver as f:
                f.write(WARM_TEXT if case.get('text_mode') else WARM_BYTES)
        fs.umask = case.get('umask', 0o022)
        sim.armed = True
    except BaseException as e:
        r.exc = e
        sim.armed = True
    sim.publish, sim.binding_changes, sim.writes_after_publish = [], {}, 0
    if case.get('reuse') and r.exc is None:
        fs.settle()                  # the earlier saves are long done and on disk
    r.pre_inos = {p: fs.binding(p) for p in (dest_abs, part_abs)}
    r.pre_state = {'dest': fs.read_path(dest_abs), 'dest_mode': fs.mode_of(dest_abs),
                   'part': fs.read_path(part_abs), 'part_mode': fs.mode_of(part_abs)}
    if only_warmup or r.exc is not None:
        sim.dispose()
        return r
    if case.get('fork_before_enter'):
        # the saver was constructed before a fork (a module-level saver in a pre-forking server, a daemonising
        # process) and is used, for the whole with-block, by the child
        sim.pid = 4243
        if log is not None:
            log.add('fork', sim.pid)
    if case.get('chdir') == 'before_enter':
        fs.cwd = OTHER_CWD           # the process changes its working directory (a daemon's chdir('/'))
        if log is not None:
            log.add('chdir', OTHER_CWD)
    if case.get('abandon_by_hand'):
        # the documented way without a with statement: setup(), writes to part_file ... and then the producer fails
        # and never gets to call __exit__; the saver object is dropped
        try:
            saver.setup()
            r.entered = True
            for step in case['body']:
                if step[0] == 'write':
                    saver.part_file.write(step[1] if case.get('text_mode') else bytes.fromhex(step[1]))
                elif step[0] == 'flush':
                    saver.part_file.flush()
                elif step[0] == 'raise':
                    break
            r.exc = BodyError('the producer failed and the saver was abandoned')
        except simfs.CrashNow:
            r.crashed = True
        except core_Unsimulated:
            sim.dispose()
            raise
        except BaseException as e:
            r.exc = e
        try:
            sim.current_saver = None
            saver = None                # last reference: the object is finalised here (an implementation may have a __del__)
        finally:
            sim.dispose()
        return r
    try:
        with saver as f:
            r.entered = True
            for step in case['body']:
                if step[0] == 'chdir':
                    fs.cwd = OTHER_CWD
                    if log is not None:
                        log.add('chdir', OTHER_CWD)
                elif step[0] == 'write':
                    data = step[1] if case.get('text_mode') else bytes.fromhex(step[1])
                    n = f.write(data)
                    # an unbuffered (raw) file may accept only part of the data: a correct
                    # caller writes the rest
                    while isinstance(f, simfs.SimRaw) and n is not None and 0 < n < len(data):
                        data = data[n:]
                        n = f.write(data)
                else:
                    body_step(f, step)
            r.body_done = True
    except simfs.CrashNow:
        r.crashed = True
    except core_Unsimulated:
        sim.dispose()
        raise
    except BaseException as e:
        r.exc = e
        fn = getattr(e, 'filename', None)
        tb, last = e.__traceback__, None
        while tb is not None:
            last, tb = tb, tb.tb_next
        raised_by_simfs = last is not None and last.tb_frame.f_code.co_filename.endswith('simfs.py')
        if (isinstance(e, FileNotFoundError) and isinstance(fn, str) and fn.startswith(DIR)
                and not raised_by_simfs and fs.lexists(fn)):
            # the path exists in the simulated file system but the REAL kernel was asked about it
            sim.dispose()
            raise core_Unsimulated('the code under test touched the real file system at simulated path %s' % fn)
        lastfile = last.tb_frame.f_code.co_filename if last is not None else ''
        if (isinstance(e, OSError) and isinstance(fn, str) and fn.startswith(DIR) and not raised_by_simfs
                and not lastfile.startswith(_VERIF_ROOT) and '/boltons/' not in lastfile):
            # an OS error about a simulated path raised from inside the standard library (a locally
            # imported tempfile / shutil / pathlib ...): the real kernel was asked
            sim.dispose()
            raise core_Unsimulated('the code under test reached the real file system through %s at simulated path %s'
                                   % (os.path.basename(lastfile), fn))
    finally:
        try:
            h = sim.hooks.get('after-save')
            if h is not None and not r.crashed:
                h()                 # (another thread of the process finishes what it began during this save)
        finally:
            sim.dispose()
    return r


def fs_after_prior(prior):
    """File system left behind by an earlier save that died at event prior['crash_at']
    (process-death view, settled).  None if that save did not reach the crash point."""
    r = run_save(prior['case'], simfs.Plan(crash_at=prior['crash_at']), None)
    if not r.crashed:
        return None
    r.fs.settle()
    return r.fs


# -- workload generation shared by C04 and C05 ---------------------------------------

TEXT_ALPHA = 'ab\né—\U0001F600 xyz'


def gen_body(rng, text, blksize, allow_raise=False):
    style = rng.random()
    steps = []

    def chunk(n):
        if text:
            return ''.join(rng.choice(TEXT_ALPHA) for _ in range(n))
        return bytes(rng.randrange(256) for _ in range(n)).hex()

    if style < 0.1:
        pass                                            # no write at all
    elif style < 0.3:
        steps.append(['write', chunk(rng.randint(1, 6))])
    elif style < 0.55:
        for _ in range(rng.randint(2, 6)):
            steps.append(['write', chunk(rng.randint(1, 5))])
            if rng.random() < 0.2:
                steps.append(['flush'])
    elif style < 0.75:
        steps.append(['write', chunk(blksize * rng.randint(1, 3) + rng.randint(-2, 3))])   # around/over the buffer
    elif style < 0.9:
        steps.append(['write', chunk(max(1, blksize - rng.randint(0, 2)))])
        steps.append(['write', chunk(rng.randint(1, 4))])
        if rng.random() < 0.5:
            steps.append(['flush'])
            steps.append(['write', chunk(rng.randint(1, blksize + 2))])
    else:
        for _ in range(rng.randint(1, 4)):
            steps.append(['write', chunk(rng.randint(0, 2 * blksize + 1))])
    if rng.random() < 0.02:
        # scale: writes far larger than any buffer (they bypass it), followed by a small tail
        big = rng.choice([8192, 8193, 65536, 70001, 300000])
        steps.append(['write', ('x' * big) if text else (b'\xab' * big).hex()])
        if rng.random() < 0.7:
            steps.append(['write', chunk(rng.randint(1, 5))])
    if steps and rng.random() < 0.06:
        # after the last write the body goes back to the start (and perhaps reads its data back)
        steps.append(rng.choice([['rewind'], ['readback']]))
    if allow_raise and rng.random() < 0.04:
        steps.append(['close'])     # the body closes the file object it was given
    if allow_raise and rng.random() < 0.25:
        steps.insert(rng.randint(0, len(steps)), rng.choice([['raise'], ['raise'], ['raise'], ['raise', 'base'], ['raise', 'falsy']]))
    return steps


def gen_workload(rng, faults=False):
    text = rng.random() < 0.4
    blksize = rng.choice([8, 8, 16, 64, 512, 8192])
    buffering = rng.choice([-1, -1, -1, 0, 1, 5, 32]) if not text else rng.choice([-1, -1, -1, 1, 5, 32])
    case = {
        'text_mode': text,
        'overwrite': rng.random() < 0.7,
        'part_file': rng.choice([None, None, 'other.tmp']),
        'buffering': buffering,
        'blksize': blksize,
        'umask': rng.choice([0, 0o022, 0o027, 0o077]),
        'dest_rel': rng.random() < 0.2,
        'dest_initial': None,
        'body': gen_body(rng, text, min(blksize, 64), allow_raise=faults),
    }
    if rng.random() < 0.6:
        case['dest_initial'] = {'data': bytes(rng.randrange(256) for _ in range(rng.randint(0, 12))).hex(),
                                'mode': rng.choice([0o600, 0o644, 0o664, 0o444])}
        if rng.random() < 0.08:
            case['dest_initial']['hardlink'] = True      # the destination has a second hard link
        if rng.random() < 0.12:
            # legal but odd modes: setuid/setgid/sticky bits, no owner bits, nothing at all
            case['dest_initial']['mode'] = rng.choice([0o4755, 0o2750, 0o1644, 0o6711, 0o040, 0o004, 0o066, 0o000, 0o007])
    if rng.random() < 0.12:
        # re-saving a slightly changed file: the old content is a near copy of the new one
        new = new_content(case)
        r = rng.random()
        old = bytearray(new)
        if r < 0.2 or not old:
            pass                                         # identical
        elif r < 0.6:
            i = rng.randrange(len(old)) if rng.random() < 0.5 else len(old) - 1 - rng.randrange(max(1, len(old) // 10))
            old[i] ^= 0x01                               # same length, one byte differs (often late)
        elif r < 0.8:
            del old[rng.randrange(len(old)):]            # shorter
        else:
            old.extend(b'tail')                          # longer
        case['dest_initial'] = {'data': bytes(old).hex(), 'mode': rng.choice([0o600, 0o644, 0o664])}
    if rng.random() < 0.12:
        case['reuse'] = rng.choice([1, 1, 2])        # the saver object already completed earlier saves
        if rng.random() < 0.5:
            case['warm_umask'] = rng.choice([0, 0o022, 0o077])   # ... under a different process umask
    if rng.random() < 0.1:
        import errno as _e
        case['env'] = {'link': rng.choice([_e.EPERM, _e.EMLINK])}   # a file system without hard links
    if rng.random() < 0.08:
        # the destination is a symbolic link (live or dangling)
        case['dest_initial'] = {'symlink': 'elsewhere.txt', 'mode': rng.choice([0o600, 0o644, 0o664]),
                                'data': bytes(rng.randrange(256) for _ in range(rng.randint(0, 8))).hex()
                                if rng.random() < 0.5 else None}
        case.pop('reuse', None)
    if faults:
        case['file_perms'] = rng.choice([None, None, None, 0o600, 0o644, 0o666, 0o755, 0o600, 0o644, 0o4711, 0o040, 0])
        case['overwrite_part'] = rng.random() < 0.3
        case['rm_part_on_exc'] = rng.random() < 0.8
        if rng.random() < 0.25:
            case['part_initial'] = {'data': b'stale part'.hex(), 'mode': 0o600}
            if rng.random() < 0.3:
                # the stale part 'file' is a symbolic link to somebody's file
                case['part_initial'] = {'symlink': 'victim.txt', 'data': b'VICTIM DATA'.hex(), 'mode': 0o640}
                case.pop('reuse', None)
    if rng.random() < 0.03 and not case.get('part_file'):
        # file names at the edge of NAME_MAX: 250 still leaves room for '.part', 251-255 do not
        n = rng.choice([250, 251, 254, 255])
        case['dest_name'] = 'n' * (n - 4) + '.txt'
        if name_too_long(case):
            case.pop('part_initial', None)      # nobody can have created a file of that name
    if rng.random() < 0.06:
        case['ctx'] = 'handler'     # the save is made while another exception is being handled
    if rng.random() < 0.15:
        case['entry'] = 'class'     # AtomicSaver(...) instead of atomic_save(...)
    if rng.random() < 0.04:
        case['fork_before_enter'] = True
    if rng.random() < 0.04:
        case['std_fds_closed'] = True
    if faults and rng.random() < 0.03:
        case['abandon_by_hand'] = True
        case.pop('reuse', None)
    if rng.random() < 0.3:
        case['omit_defaults'] = True    # keyword arguments equal to the documented defaults are not passed
    if faults and case['dest_rel'] and rng.random() < 0.3:
        # a relative destination names a file in the working directory *at construction*; the process changes
        # directory afterwards (before entering the with-block, or inside the body)
        if rng.random() < 0.5:
            case['chdir'] = 'before_enter'
        else:
            case['body'].insert(rng.randint(0, len(case['body'])), ['chdir'])
    if faults and rng.random() < 0.25:
        case['other_thread'] = True     # C05 also lets another thread save another file at every point of this save
    return case


# -- stub fidelity: the same fault-free save on the real kernel -------------------------------

class _RecPath:
    def __init__(self, rec):
        self._rec = rec

    def lexists(self, p):
        self._rec.calls.append('lexists')
        import os
        return os.path.lexists(p)

    def __getattr__(self, name):
        import os
        return getattr(os.path, name)


class _RecOS:
    """The real os module with the names of the simulated calls recorded."""
    _RECORD = ('stat', 'open', 'fdopen', 'chmod', 'fsync', 'rename', 'link', 'unlink')

    def __init__(self):
        self.calls = []
        self.path = _RecPath(self)

    def __getattr__(self, name):
        import os
        val = getattr(os, name)
        if name in self._RECORD:
            def wrapped(*a, **k):
                self.calls.append(name)
                return val(*a, **k)
            return wrapped
        return val


def run_real(case):
    """Execute the (fault-free) workload against the real os in a fresh temp directory.
    -> dict(listing, dest bytes, dest mode, os-level call names, exception type)"""
    import os
    import shutil
    import stat
    import tempfile
    import fcntl as real_fcntl
    d = tempfile.mkdtemp(prefix='simfs-fidelity-')
    old_umask = os.umask(case.get('umask', 0o022))
    old_cwd = os.getcwd()
    try:
        dest_name = case.get('dest_name', 'dest.txt')
        dest_abs = os.path.join(d, dest_name)
        part_abs = os.path.join(d, case['part_file']) if case.get('part_file') else dest_abs + '.part'
        for spec, path in ((case.get('dest_initial'), dest_abs), (case.get('part_initial'), part_abs)):
            if spec is None:
                continue
            target = path
            if spec.get('symlink'):
                target = os.path.join(d, spec['symlink'])
                os.symlink(spec['symlink'], path)
            if spec.get('data') is not None:
                with open(target, 'wb') as fh:
                    fh.write(bytes.fromhex(spec['data']))
                os.chmod(target, spec['mode'])
                if spec.get('hardlink'):
                    os.link(target, os.path.join(d, SNAPSHOT_LINK))
        os.chdir(d)
        rec = _RecOS()
        fu.os = rec
        fu.fcntl = real_fcntl
        import shutil as _sh
        fu.copy2, fu.copystat = _sh.copy2, _sh.copystat
        for name in ('open', 'shutil', 'tempfile', 'filecmp'):
            fu.__dict__.pop(name, None)
        exc = None
        try:
            with make_saver(case, dest_name if case.get('dest_rel') else dest_abs) as f:
                for step in case['body']:
                    if step[0] == 'write':
                        f.write(step[1] if case.get('text_mode') else bytes.fromhex(step[1]))
                    else:
                        body_step(f, step)
        except BaseException as e:
            exc = e
        out = {'listing': sorted(os.listdir(d)), 'exc': type(exc).__name__ if exc else None, 'calls': rec.calls,
               'dest_is_link': os.path.islink(dest_abs)}
        if os.path.exists(dest_abs):
            with open(dest_abs, 'rb') as fh:
                out['dest'] = fh.read()
            out['mode'] = stat.S_IMODE(os.stat(dest_abs).st_mode)
        else:
            out['dest'], out['mode'] = None, None
        return out
    finally:
        os.chdir(old_cwd)
        os.umask(old_umask)
        shutil.rmtree(d, ignore_errors=True)


def run_sim_summary(case):
    r = run_save(case, simfs.Plan(), None)
    _a, dest_abs, _p = paths(case)
    names = ('stat', 'open', 'fdopen', 'chmod', 'fsync', 'rename', 'link', 'unlink', 'lexists')
    return {'listing': sorted(p.rsplit('/', 1)[1] for p in list(r.fs.listing()) + list(r.fs.symlinks)),
            'dest_is_link': r.fs.is_symlink(dest_abs),
            'exc': type(r.exc).__name__ if r.exc else None,
            'calls': [k for k, _d in r.sim.trace if k in names],
            'dest': r.fs.read_path(dest_abs), 'mode': r.fs.mode_of(dest_abs)}


def fidelity_diff(case):
    """None if the simulated and the real execution agree, else a description."""
    real = run_real(case)
    sim = run_sim_summary(case)
    for k in ('listing', 'exc', 'dest', 'mode', 'calls', 'dest_is_link'):
        if real[k] != sim[k]:
            return '%s differs: real %r, simfs %r' % (k, real[k], sim[k])
    return None


def real_crash_enumeration(case, max_points=40):
    """Process-death view on the real kernel, end to end: fork a child per os-level call k of the
    fault-free save; the child _exit()s immediately before its k-th recorded call (no unwinding,
    no flushing); the parent then reads the destination, which must hold the old or the complete
    new content.  -> (points tried, list of problems)"""
    import os
    import shutil
    import tempfile
    import fcntl as real_fcntl
    base = run_real(case)
    n = len(base['calls'])
    old = bytes.fromhex(case['dest_initial']['data']) if case.get('dest_initial') else None
    new = new_content(case)
    problems = []
    tried = 0
    for k in range(min(n, max_points)):
        d = tempfile.mkdtemp(prefix='simfs-realcrash-')
        try:
            dest_name = case.get('dest_name', 'dest.txt')
            dest_abs = os.path.join(d, dest_name)
            if case.get('dest_initial'):
                with open(dest_abs, 'wb') as fh:
                    fh.write(old)
                os.chmod(dest_abs, case['dest_initial']['mode'])
                if case['dest_initial'].get('hardlink'):
                    os.link(dest_abs, os.path.join(d, SNAPSHOT_LINK))
            pid = os.fork()
            if pid == 0:
                try:
                    os.umask(case.get('umask', 0o022))
                    os.chdir(d)
                    rec = _RecOS()
                    count = [0]
                    orig_getattr = _RecOS.__getattr__

                    class Dying(_RecOS):
                        def __getattr__(self, name):
                            val = orig_getattr(self, name)
                            if name in _RecOS._RECORD:
                                def w(*a, **kw):
                                    if len(self.calls) == k:
                                        os._exit(0)
                                    return val(*a, **kw)
                                return w
                            return val
                    dy = Dying()
                    plx = dy.path.lexists

                    def lex(p):
                        if len(dy.calls) == k:
                            os._exit(0)
                        return plx(p)
                    dy.path.lexists = lex
                    fu.os = dy
                    fu.fcntl = real_fcntl
                    import shutil as _sh
                    fu.copy2, fu.copystat = _sh.copy2, _sh.copystat
                    for name in ('open', 'shutil', 'tempfile', 'filecmp'):
                        fu.__dict__.pop(name, None)
                    with make_saver(case, dest_name if case.get('dest_rel') else dest_abs) as f:
                        for step in case['body']:
                            if step[0] == 'write':
                                f.write(step[1] if case.get('text_mode') else bytes.fromhex(step[1]))
                            else:
                                body_step(f, step)
                finally:
                    os._exit(0)
            os.waitpid(pid, 0)
            tried += 1
            got = None
            if os.path.exists(dest_abs):
                with open(dest_abs, 'rb') as fh:
                    got = fh.read()
            ok = (got is None and old is None) or got == new or (old is not None and got == old)
            if not ok:
                problems.append('child died before os-level call %d (%s): destination reads %r, old %r, new %r'
                                % (k, base['calls'][k], got, old, new))
        finally:
            shutil.rmtree(d, ignore_errors=True)
    return tried, problems
