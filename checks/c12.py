"""C12 -- BufferedSocket framing is independent of chunking; no byte lost or duplicated.

Engine: simnet.  Real code: boltons.socketutils.BufferedSocket, NetstringSocket and
their exception classes.  Stub: the socket object and the clock.
"""
import itertools

from simkit import core, shrinkers
from engines.simnet import SimClock, SimSocket, INF, StepCapExceeded, Cancelled

PROPERTY = 'C12'
ENGINE = 'simnet'
LEVEL = 'exploration'
SOURCE_FILES = ['boltons/socketutils.py']
SIM_TIME_UNIT = 'simulated seconds on the SimClock (advanced only by blocking socket calls and ticks)'
TIERS = {
    'quick': {'budget_s': 25, 'min_runs': 60000, 'block': 1000, 'fixed_block': 200},
    'thorough': {'budget_s': 600, 'min_runs': 2000000, 'block': 2000, 'fixed_block': 200},
}
RULE = ('Cases are drawn from the run PRNG: a byte stream over a delimiter-rich alphabet, its '
        'composition into deliveries with gaps, a close instant, the kernel recv()/send() split '
        'script, recvsize/maxsize/timeout/tick, and a program of BufferedSocket calls (recv mode), '
        'send/sendall/buffer/flush calls against a finite kernel buffer (send mode) or write_ns/'
        'read_ns frames (netstring mode); plus a fixed floor of every composition of short streams. '
        'A case is non-trivial when at least one boundary class occurred in it: delimiter straddling '
        'two recv() returns, size met exactly at a recv() edge, Timeout or EWOULDBLOCK raised with '
        'bytes already buffered, MessageTooLong, a partial send, a send timeout with bytes unsent, a '
        'netstring frame split across deliveries. distinct = distinct (mode, stream, ops, classes) hashes.')
COMPONENTS = {'real': ['boltons.socketutils.BufferedSocket', 'boltons.socketutils.NetstringSocket',
                       'socketutils exception classes'],
              'stub': ['socket object (engines.simnet.SimSocket)', 'time module (engines.simnet.SimClock)',
                       'peer and kernel buffers (scripts)']}
ASSUMPTIONS = ['a stream socket never returns more than asked, never reorders or invents bytes',
               'recv() returns b"" only after the peer closed; timeout 0 raises BlockingIOError when nothing is ready',
               'send() accepts between 1 and len(data) bytes when there is room',
               'oracle: independent model over the remaining stream (what happens when the whole stream arrives at once)',
               'sizes passed to recv_size/peek/recv are >= 1; retries after Timeout / EWOULDBLOCK repeat the same call',
               'threads mode: 2-3 caller threads receive from one BufferedSocket in blocking mode; pre-emption points are every bytecode of socketutils.py, the lock operations and every socket call; sender threads likewise (send/sendall/buffer/flush): the peer must get the chunks of every thread whole, once, in the order of that thread; the calls must be explainable by SOME order that keeps each thread\'s own order (each call atomic on the stream), and nothing may be lost',
               'netstrings: C12 promises retry-after-Timeout for the recv_* family only, read_ns is not retry-safe in mid-frame; the simulated reader therefore sees gaps longer than its timeout only between frames']

SELFTEST_MUTANT = 'recv-split-off-by-one'
REQUIRED_PROBES = ['delimiter_straddles_recv', 'size_met_at_recv_edge', 'timeout_with_partial_data',
                   'ewouldblock_with_partial_data', 'message_too_long', 'partial_send', 'send_timeout_with_unsent',
                   'ns_roundtrip_frames', 'timeout', 'send_timeout', 'threads_interleaved_on_one_socket',
                   'sender_threads_interleaved_on_one_socket', 'second_wrapper_in_mid_stream']
su = None   # boltons.socketutils, set by setup()

DELIMS = [b'|', b'\n', b'\r\n', b'||', b'\r\n\r\n', b'ab', b'aba', b'|a|', b'\r', b'a|', b'%', b'%s|', b'a%\n', b'{}', b'\\']


def setup(root):
    global su
    import boltons.socketutils as m
    su = m
    # caller threads sharing one socket are pre-empted at every bytecode of socketutils.py (as C03 does for
    # cacheutils.py); the instrumentation is switched on only for the duration of a threaded run
    from engines import threadsim
    threadsim.install_dormant(m)


# ------------------------------------------------------------------------------
# generation

def _gen_stream(rng, tier):
    style = rng.random()
    if rng.random() < (0.02 if tier == 'thorough' else 0.003):
        n = rng.choice([1000, 1100, 2500, 5000, 32767, 32768, 32769, 33000, 65536, 70000])
    else:
        n = rng.choice([0, 1, 2, 3, 5, 8, 13, 21, 40, 80, 200]) if rng.random() < 0.5 else rng.randint(0, 60)
    if style < 0.5:
        alpha = b'ab|\r\n'
    elif style < 0.6:
        alpha = b'ab|\r\n%s%{}\\'        # bytes that mean something to %-formatting, str.format, escapes
    elif style < 0.8:
        alpha = b'ab||\r\n\r\n|||aaab'
    else:
        alpha = bytes(range(256))
    return bytes(rng.choice(alpha) for _ in range(n))


def _gen_cuts(rng, stream, delim_positions, timeout):
    """Return deliveries [[gap, nbytes], ...] covering the stream."""
    n = len(stream)
    style = rng.random()
    if n > 3000:
        style = 0.3 + 0.3 * style            # long streams: a handful of random cuts only (cost)
    if n == 0:
        cuts = []
    elif style < 0.12:
        cuts = []                                       # all at once
    elif style < 0.27:
        cuts = list(range(1, n))                        # one byte at a time
    elif style < 0.6:
        k = rng.randint(1, max(1, min(n - 1, 12))) if n > 1 else 0
        cuts = sorted(set(rng.randint(1, n - 1) for _ in range(k))) if n > 1 else []
    else:
        # biased: inside and right after delimiters, plus a few random ones
        cand = set()
        for p, ln in delim_positions:
            for q in range(p, p + ln + 1):
                if 0 < q < n and rng.random() < 0.6:
                    cand.add(q)
        for _ in range(rng.randint(0, 3)):
            if n > 1:
                cand.add(rng.randint(1, n - 1))
        cuts = sorted(cand)
    sizes = [b - a for a, b in zip([0] + cuts, cuts + [n])] if n else []
    gaps = []
    gstyle = rng.random()
    for _ in sizes:
        gaps.append(_gen_gap(rng, timeout, gstyle))
    return [[g, s] for g, s in zip(gaps, sizes)]


def _gen_gap(rng, timeout, gstyle):
    base = timeout if timeout else 1.0
    if gstyle < 0.25:
        return 0.0
    r = rng.random()
    if r < 0.55:
        return 0.0
    if r < 0.8:
        return round(rng.uniform(0, base / 4), 6)
    if r < 0.9:
        return round(base * rng.choice([0.5, 0.99, 1.0]), 6)
    return round(base * rng.uniform(1.01, 2.5), 6)


def _find_all(stream, delims):
    out = []
    for d in delims:
        i = stream.find(d)
        while i != -1:
            out.append((i, len(d)))
            i = stream.find(d, i + 1)
    return out


def _gen_split(rng, n=0):
    r = rng.random()
    if n > 3000:
        return [0]
    if r < 0.35:
        return [0]
    if r < 0.55:
        return [1]
    return [rng.choice([0, 1, 1, 2, 3, 5, 8]) for _ in range(rng.randint(2, 6))]


def _gen_threads(rng, tier):
    """Two or three caller threads receive from one BufferedSocket (blocking mode)."""
    stream = _gen_stream(rng, tier)
    delims = rng.sample(DELIMS, rng.randint(1, 2))
    deliveries = [[0.0, n] for _g, n in _gen_cuts(rng, stream, _find_all(stream, delims), None)]
    threads = []
    for _t in range(rng.choice([2, 2, 3])):
        ops = []
        for _ in range(rng.randint(1, 3)):
            k = rng.random()
            if k < 0.35:
                ops.append(['recv_size', _gen_size(rng, max(1, len(stream) // 3))])
            elif k < 0.65:
                ops.append(['recv', _gen_size(rng, max(1, len(stream) // 3))])
            elif k < 0.85:
                ops.append(['recv_until', rng.choice(delims).hex(), 'unset', rng.random() < 0.4])
            else:
                ops.append(['peek', _gen_size(rng, max(1, len(stream) // 3))])
        threads.append(ops)
    return {'mode': 'threads', 'stream': stream.hex(), 'deliveries': deliveries, 'recv_split': _gen_split(rng, len(stream)),
            'maxsize': 32768, 'recvsize': rng.choice([None, 1, 2, 3, 7, 64]), 'threads': threads,
            'sched': {'kind': 'random', 'seed': rng.getrandbits(32), 'p': rng.choice([0.2, 0.5, 0.8])}}


def _gen_send_threads(rng, tier):
    """Two or three caller threads send/buffer/flush through one BufferedSocket (blocking mode, partial sends)."""
    threads = []
    tag = 0
    for _t in range(rng.choice([2, 2, 3])):
        ops = []
        for _ in range(rng.randint(1, 3)):
            tag += 1
            data = bytes([0x40 + tag]) * rng.choice([1, 2, 3, 5, 9])       # every chunk is recognisable
            k = rng.random()
            if k < 0.3:
                ops.append(['send', data.hex()])
            elif k < 0.5:
                ops.append(['sendall', data.hex()])
            elif k < 0.85:
                ops.append(['buffer', data.hex()])
            else:
                ops.append(['flush'])
        threads.append(ops)
    case = {'mode': 'send-threads', 'send_split': _gen_split(rng), 'threads': threads,
            'sched': {'kind': 'random', 'seed': rng.getrandbits(32), 'p': rng.choice([0.05, 0.2, 0.5])}}
    if rng.random() < 0.35:
        # the threads share a NetstringSocket: every write_ns() frame must reach the wire whole
        case['netstring'] = True
        case['threads'] = [[['write_ns', op[1]] for op in t if len(op) > 1] or [['write_ns', '58']] for t in threads]
    return case


def gen_case(rng, tier):
    r = rng.random()
    if r < 0.02:
        return _gen_send_threads(rng, tier)
    if r < 0.04:
        return _gen_threads(rng, tier)
    if r < 0.62:
        return _gen_recv(rng, tier)
    if r < 0.84:
        return _gen_send(rng, tier)
    return _gen_ns(rng, tier)


def _gen_recv(rng, tier):
    stream = _gen_stream(rng, tier)
    delims = rng.sample(DELIMS, rng.randint(1, 3))
    timeout = rng.choice([None, 0, 0.5, 5.0, 5.0])
    maxsize = rng.choice([2, 4, 8, 16, 64, 32768, 32768])
    recvsize = rng.choice([None, 1, 2, 3, 7, 64, 32768])
    tick = 0.0
    if timeout and rng.random() < 0.3:
        tick = timeout / rng.choice([400.0, 50.0, 8.0])
    deliveries = _gen_cuts(rng, stream, _find_all(stream, delims), timeout)
    ops = []
    for _ in range(rng.randint(1, 12)):
        k = rng.random()
        if k < 0.45:
            ms = rng.choice(['unset', 'unset', None, 1, 2, 3, 5, 8, 20, len(stream), len(stream) + 1])
            ops.append(['recv_until', rng.choice(delims).hex(), ms, rng.random() < 0.4])
        elif k < 0.65:
            ops.append(['recv_size', _gen_size(rng, len(stream))])
        elif k < 0.8:
            ops.append(['peek', _gen_size(rng, len(stream))])
        elif k < 0.92:
            ops.append(['recv', _gen_size(rng, len(stream))] if rng.random() < 0.93 else ['recv_flags', _gen_size(rng, len(stream))])
        else:
            ops.append(['recv_close', rng.choice(['unset', None, 0, 1, 3, 10, len(stream), max(0, len(stream) - 1)])])
    if timeout is not None and rng.random() < 0.3:
        ops = [(op + [{'abandon': True}]) if rng.random() < 0.4 else op for op in ops]
    if rng.random() < 0.08:
        # a second BufferedSocket is put around the first in mid-stream (what NetstringSocket(bsock) or a protocol
        # upgrade does): the receive side of a BufferedSocket honours the socket contract, so the stream goes on
        ops.insert(rng.randint(0, len(ops)), ['rewrap', rng.choice([None, 1, 3, 64])])
    recv_errors = []
    if rng.random() < 0.15:
        import errno as _e
        for _ in range(rng.randint(1, 3)):
            recv_errors.append([rng.randint(1, 12), rng.choice([_e.ECONNRESET, _e.EINTR, _e.ENOBUFS, 0, 0])])
    if tick == 0.0 and rng.random() < 0.35:
        # per-call timeout overrides and changes of the defaults in mid-stream
        tchoices = [None, 0, 0.5, 5.0]
        ops2 = []
        for op in ops:
            r = rng.random()
            if r < 0.12:
                ops2.append(['settimeout', rng.choice(tchoices)])
            elif r < 0.2:
                ops2.append(['setmaxsize', rng.choice([2, 4, 8, 64, 32768, None])])
            if rng.random() < 0.3:
                op = op + [{'to': rng.choice(tchoices)}]
            ops2.append(op)
        ops = ops2
    return {'mode': 'recv', 'stream': stream.hex(), 'deliveries': deliveries,
            'close_gap': _gen_gap(rng, timeout, rng.random()), 'recv_split': _gen_split(rng, len(stream)),
            'timeout': timeout, 'maxsize': maxsize, 'recvsize': recvsize, 'tick': tick, 'ops': ops,
            'recv_errors': recv_errors}


def _gen_size(rng, n):
    r = rng.random()
    if r < 0.5:
        return rng.randint(1, 6)
    if r < 0.8:
        return rng.randint(1, max(1, n))
    return rng.choice([1, max(1, n), n + 1, n + 5, max(1, n // 2)])


def _gen_send(rng, tier):
    timeout = rng.choice([None, 0, 0.5, 5.0])
    ops = []
    for _ in range(rng.randint(1, 10)):
        k = rng.random()
        n = rng.choice([0, 1, 2, 3, 5, 9, 17, 50]) if rng.random() < 0.8 else rng.randint(0, 300)
        data = bytes(rng.randrange(256) for _ in range(n)).hex()
        kind = [rng.choice(['bytearray', 'memoryview'])] if rng.random() < 0.1 else []
        if k < 0.35:
            ops.append(['send', data] + kind)
        elif k < 0.55:
            ops.append(['sendall', data] + kind)
        elif k < 0.85:
            ops.append(['buffer', data] + kind)
        else:
            ops.append(['flush'])
    sndbuf = rng.choice([1, 2, 4, 16, 64, 1 << 30])
    drains = []
    gstyle = rng.random()
    for _ in range(rng.randint(0, 12)):
        drains.append([_gen_gap(rng, timeout, gstyle), rng.choice([1, 1, 2, 3, 8, 64])])
    tick = 0.0
    if timeout and rng.random() < 0.3:
        tick = timeout / rng.choice([400.0, 50.0, 8.0])
    send_errors = []
    if rng.random() < 0.15:
        import errno as _e
        for _ in range(rng.randint(1, 3)):
            send_errors.append([rng.randint(1, 10), rng.choice([_e.ECONNRESET, _e.EINTR, _e.ENOBUFS, 0, 0])])
    return {'mode': 'send', 'timeout': timeout, 'sndbuf': sndbuf, 'drains': drains,
            'send_split': _gen_split(rng), 'tick': tick, 'ops': ops, 'send_errors': send_errors}


def _gen_ns(rng, tier):
    maxsize = rng.choice([8, 40, 100, 32768])
    frames = []
    special = b':,0123456789'
    for _ in range(rng.randint(1, 6)):
        n = rng.choice([0, 1, 2, 5, 9, 10, 11, 39, 40, 41, 99, 100, 101]) if rng.random() < 0.5 else rng.randint(0, 30)
        if rng.random() < 0.5:
            payload = bytes(rng.choice(special) for _ in range(n))
        else:
            payload = bytes(rng.randrange(256) for _ in range(n))
        cuts = [[round(rng.choice([0, 0, 0.01, 0.3, 0.9]), 6), rng.choice([1, 1, 2, 3, 5, 100])]
                for _ in range(rng.randint(0, 5))]
        frames.append({'payload': payload.hex(),
                       'pre_gap': round(rng.choice([0, 0, 0.1, 0.9, 1.5, 7.0]), 6), 'cuts': cuts})
    case_extra = {}
    if rng.random() < 0.25:
        case_extra['writer_timeout'] = rng.choice([0.2, 0.5, 1.0])
    if rng.random() < 0.03:
        # scale: payloads beyond any plausible inline/copy threshold
        maxsize = 1 << 17
        big = rng.choice([16383, 16384, 20000, 40000, 65536])
        frames[rng.randrange(len(frames))]['payload'] = (bytes(rng.randrange(256) for _ in range(64)) * (big // 64 + 1))[:big].hex()
        case_extra['big'] = True
    if rng.random() < 0.2:
        # the reader's own limit is small; every read_ns() call overrides it with the writer's limit
        case_extra['reader_maxsize'] = rng.choice([1, 8, 9, 40, 99])
    return dict(case_extra, **{'mode': 'netstring', 'maxsize': maxsize, 'ns_timeout': rng.choice([None, 0.5, 1.0, 10]),
            'frames': frames, 'sndbuf': rng.choice([1, 3, 16, 1 << 30]),
            'drains': [[round(rng.choice([0, 0.01, 0.5, 0.9]), 6), rng.choice([1, 2, 5, 64, 5000])]
                       for _ in range(rng.randint(0, 10))],
            'send_split': _gen_split(rng) if 'big' not in case_extra else [rng.choice([0, 4096, 5000])],
            'recv_split': _gen_split(rng) if 'big' not in case_extra else [rng.choice([0, 4096, 1000])]})


_FIXED = {}


def fixed_cases(tier):
    """Seed-independent floor: every composition of short delimiter-rich streams."""
    if tier in _FIXED:
        return _FIXED[tier]
    cases = []
    progs = [
        (b'a|b\r\nc|', [['recv_until', b'|'.hex(), 'unset', False], ['recv_until', b'\r\n'.hex(), 'unset', True],
                        ['recv_size', 1], ['recv_until', b'|'.hex(), 'unset', False]]),
        (b'ab||cd|', [['peek', 3], ['recv_until', b'||'.hex(), 4, False], ['recv_size', 2], ['recv_close', 'unset']]),
        (b'\r\n\r\r\n\r\n', [['recv_until', b'\r\n\r\n'.hex(), 'unset', True], ['recv', 2], ['recv_close', 3]]),
        (b'abcabc|', [['recv_until', b'|'.hex(), 3, False], ['recv_size', 3], ['peek', 4], ['recv_until', b'|'.hex(), 4, True]]),
    ]
    for stream, ops in progs:
        n = len(stream)
        for mask in range(1 << (n - 1)):
            sizes, last = [], 0
            for i in range(1, n):
                if mask >> (i - 1) & 1:
                    sizes.append(i - last)
                    last = i
            sizes.append(n - last)
            for variant in range(3):
                # variant 0: no gaps, blocking; 1: every gap exceeds the timeout; 2: non-blocking
                timeout = [None, 0.5, 0][variant]
                gap = [0.0, 0.75, 0.2][variant]
                cases.append({'mode': 'recv', 'stream': stream.hex(),
                              'deliveries': [[gap, s] for s in sizes], 'close_gap': gap,
                              'recv_split': [0], 'timeout': timeout, 'maxsize': 32768,
                              'recvsize': None, 'tick': 0.0, 'ops': ops})
    _FIXED[tier] = cases
    return cases


def case_size(case):
    return (len(case.get('ops', [])) + len(case.get('deliveries', [])) + len(case.get('stream', '')) // 2
            + len(case.get('frames', [])) + len(case.get('drains', [])))


def describe_case(case):
    return case


# ------------------------------------------------------------------------------
# execution

class _YieldingSock:
    """The socket as seen by BufferedSocket in the threaded mode: every call is a pre-emption point."""

    def __init__(self, sock, sched):
        self._sock, self._sched = sock, sched

    def __getattr__(self, name):
        val = getattr(self._sock, name)
        if not callable(val):
            return val
        sched = self._sched

        def call(*a, **k):
            if sched.cur is not None:
                sched.yield_point(('sock', name))
            try:
                return val(*a, **k)
            finally:
                if sched.cur is not None:
                    sched.yield_point(('sock', name + '-return'))
        return call


def _merges(seqs):
    """All interleavings of the per-thread op records that keep each thread's own order."""
    if not any(seqs):
        yield []
        return
    for i, sq in enumerate(seqs):
        if sq:
            rest = seqs[:i] + [sq[1:]] + seqs[i + 1:]
            for tail in _merges(rest):
                yield [sq[0]] + tail


def _run_threads(case):
    from engines import threadsim
    out = core.Outcome()
    log = core.EventLog(keep=False)
    stream = bytes.fromhex(case['stream'])
    nthreads = len(case['threads'])
    sched = threadsim.Scheduler(threadsim.make_policy(case['sched'], nthreads), log, step_cap=60000 + 4000 * len(stream))
    clock = SimClock(log, 0.0)
    _install_clock(clock)
    sock = SimSocket(clock, log, stream=stream, inbound=case['deliveries'], close_gap=0.0,
                     recv_split=case['recv_split'], call_cap=40 * (len(stream) + 10))
    real_rlock = su.RLock
    su.RLock = lambda *a, **k: threadsim.SimRLock(sched)
    try:
        kw = {'timeout': None, 'maxsize': case['maxsize']}
        if case['recvsize'] is not None:
            kw['recvsize'] = case['recvsize']
        bs = su.BufferedSocket(_YieldingSock(sock, sched), **kw)
    finally:
        su.RLock = real_rlock
    recs = [[] for _ in range(nthreads)]

    def program(tid, ops):
        def run():
            for i, op in enumerate(ops):
                sched.yield_point(('invoke', tid, i))
                try:
                    res = ('ok', bytes(_call(bs, op)))
                except threadsim.SimAbort:
                    raise
                except su.ConnectionClosed:
                    res = ('ConnectionClosed', None)
                except su.MessageTooLong:
                    res = ('MessageTooLong', None)
                except StepCapExceeded:
                    res = ('StepCapExceeded', None)
                except Exception as e:
                    res = ('exc', '%s: %s' % (type(e).__name__, e))
                recs[tid].append((op, res))
                log.add('ret', tid, i, repr(res))
                sched.yield_point(('return', tid, i))
        return run

    for tid, ops in enumerate(case['threads']):
        sched.spawn(program(tid, ops))
    threadsim.tracing(su, True)
    try:
        reason = sched.run()
    finally:
        threadsim.tracing(su, False)
    out.steps = sched.step
    out.sim_time = float(sched.step)
    if sched.contended:
        out.probe('recv_lock_contended', sched.contended)
    if reason == 'deadlock':
        out.fail('deadlock', sched.step, 'caller threads of one BufferedSocket block each other for ever', mode='threads')
    elif reason == 'no-progress':
        out.fail('no-progress', sched.step, 'more than %d scheduler steps' % sched.step_cap, mode='threads')
    if out.violation is None and any(l.owner is not None for l in sched.locks):
        out.fail('lock-leaked', sched.step, 'all caller threads finished but a BufferedSocket lock is still held', mode='threads')
    if out.violation is None:
        for tid, rr in enumerate(recs):
            for op, res in rr:
                if res[0] in ('exc', 'StepCapExceeded'):
                    out.fail('unexpected-exception', 0, 'thread %d %r: %r' % (tid, op, res), mode='threads')
                    break
            if out.violation:
                break
    if out.violation is None:
        rest = bytes(bs.getrecvbuffer()) + sock.undelivered()
        ok = False
        tried = 0
        for order in _merges([list(r) for r in recs]):
            tried += 1
            R = stream
            good = True
            for op, res in order:
                exp = _expected(op, R, case['maxsize'])
                if exp[0] == 'prefix':
                    v = res[1] if res[0] == 'ok' else None
                    if v is None or len(v) > op[1] or not R.startswith(v) or (not v and R):
                        good = False
                        break
                    R = R[len(v):]
                elif exp[0] == 'ok':
                    if res != ('ok', exp[1]):
                        good = False
                        break
                    R = R[exp[2]:]
                elif res[0] != exp[0]:
                    good = False
                    break
            if good and R == rest:
                ok = True
                break
        if not ok:
            out.fail('threads-not-serializable', 0,
                     'no order of the calls of %d threads explains what they received from stream %r: %s; buffered+undelivered %r '
                     '(%d interleavings tried)' % (nthreads, stream[:60], ['T%d %r -> %r' % (t, o, r) for t, rr in enumerate(recs) for o, r in rr],
                                                   rest[:60], tried), mode='threads')
        elif sched.switches:
            out.probe('threads_interleaved_on_one_socket')
            out.nontrivial.append(core.h64(['threads', case['stream'], case['threads'], case['deliveries'],
                                            [(f, t) for _s, f, t, _w in sched.switches]]))
    out.digest = log.digest()
    return out


def _run_send_threads(case):
    from engines import threadsim
    out = core.Outcome()
    log = core.EventLog(keep=False)
    nthreads = len(case['threads'])
    total = sum(len(op[1]) // 2 for t in case['threads'] for op in t if len(op) > 1)
    sched = threadsim.Scheduler(threadsim.make_policy(case['sched'], nthreads), log, step_cap=120000 + 6000 * total)
    clock = SimClock(log, 0.0)
    _install_clock(clock)
    sock = SimSocket(clock, log, sndbuf=1 << 30, drains=[], send_split=case['send_split'], call_cap=40 * (total + 10))
    real_rlock = su.RLock
    su.RLock = lambda *a, **k: threadsim.SimRLock(sched)
    ns = None
    try:
        if case.get('netstring'):
            ns = su.NetstringSocket(_YieldingSock(sock, sched), timeout=None)
            bs = ns.bsock
        else:
            bs = su.BufferedSocket(_YieldingSock(sock, sched), timeout=None)
    finally:
        su.RLock = real_rlock
    errors = []

    def program(tid, ops):
        def run():
            for i, op in enumerate(ops):
                sched.yield_point(('invoke', tid, i))
                try:
                    if op[0] == 'flush':
                        bs.flush()
                    elif op[0] == 'write_ns':
                        ns.write_ns(bytes.fromhex(op[1]))
                    else:
                        getattr(bs, op[0])(bytes.fromhex(op[1]))
                except threadsim.SimAbort:
                    raise
                except StepCapExceeded:
                    errors.append((tid, op, 'more send() calls than any correct run needs'))
                except Exception as e:
                    errors.append((tid, op, '%s: %s' % (type(e).__name__, e)))
                sched.yield_point(('return', tid, i))
        return run

    for tid, ops in enumerate(case['threads']):
        sched.spawn(program(tid, ops))
    threadsim.tracing(su, True)
    try:
        reason = sched.run()
    finally:
        threadsim.tracing(su, False)
    out.steps = sched.step
    out.sim_time = float(sched.step)
    if sched.contended:
        out.probe('send_lock_contended', sched.contended)
    if reason == 'deadlock':
        out.fail('deadlock', sched.step, 'sender threads of one BufferedSocket block each other for ever', mode='send-threads')
    elif reason == 'no-progress':
        out.fail('no-progress', sched.step, 'more than %d scheduler steps' % sched.step_cap, mode='send-threads')
    elif any(l.owner is not None for l in sched.locks):
        out.fail('lock-leaked', sched.step, 'all sender threads finished but a BufferedSocket lock is still held', mode='send-threads')
    elif errors:
        out.fail('unexpected-exception', 0, 'thread %d %r raised %s' % errors[0], mode='send-threads')
    if out.violation is None:
        try:
            bs.flush()
        except StepCapExceeded:
            out.fail('no-progress', 0, 'the final flush made more send() calls than any correct run needs', mode='send-threads')
        except Exception as e:
            out.fail('unexpected-exception', 0, 'final flush raised %r' % (e,), mode='send-threads')
    if out.violation is None:
        sock._pump()
        wire = bytes(sock.peer_got) + bytes(sock.kbuf) + bytes(bs.getsendbuffer())
        chunks = [[bytes.fromhex(op[1]) for op in t if len(op) > 1] for t in case['threads']]
        if ns is not None:
            chunks = [[b'%d:' % len(p) + p + b',' for p in t] for t in chunks]      # whole frames
        ok = any(b''.join(order) == wire for order in _merges(chunks))
        if not ok:
            out.fail('send-bytes-not-conserved', 0, 'sender threads submitted %r; the peer got %r: not the chunks of every thread, whole, '
                     'each exactly once, in that thread\'s order' % (chunks, wire), mode='send-threads')
        elif sched.switches:
            out.probe('sender_threads_interleaved_on_one_socket')
            out.nontrivial.append(core.h64(['send-threads', case['threads'], case['send_split'],
                                            [(f, t) for _s, f, t, _w in sched.switches]]))
    out.digest = log.digest()
    return out


def run_case(case):
    if case.get('mode') == 'send-threads':
        return _run_send_threads(case)
    if case.get('mode') == 'threads':
        return _run_threads(case)
    mode = case['mode']
    if mode == 'recv':
        return _run_recv(case)
    if mode == 'send':
        return _run_send(case)
    return _run_ns(case)


def _install_clock(clock):
    su.time = clock


def _expected(op, R, default_maxsize):
    name = op[0]
    if name == 'recv_until':
        delim, ms, withd = bytes.fromhex(op[1]), op[2], op[3]
        if ms == 'unset':
            ms = default_maxsize
        if ms is None:
            ms = 1 << 60
        idx = R.find(delim, 0, ms)
        if idx != -1:
            end = idx + len(delim)
            return ('ok', R[:end] if withd else R[:idx], end)
        if len(R) > ms:
            return ('MessageTooLong', None, 0)
        return ('ConnectionClosed', None, 0)
    if name in ('recv_size', 'peek'):
        n = op[1]
        if len(R) >= n:
            return ('ok', R[:n], n if name == 'recv_size' else 0)
        return ('ConnectionClosed', None, 0)
    if name == 'recv_close':
        ms = op[1]
        if ms == 'unset':
            ms = default_maxsize
        if ms is None:
            ms = 1 << 60
        if len(R) <= ms:
            return ('ok', R, len(R))
        return ('MessageTooLong', None, 0)
    if name == 'recv':
        return ('prefix', None, None)
    if name == 'recv_flags':
        return ('ValueError', None, 0)      # non-zero flags are refused, whatever is buffered
    raise AssertionError(name)


def _op_abandon(op):
    """Ops may end with {'abandon': True}: if the call fails with Timeout / EWOULDBLOCK / a transient error
    the caller gives up on it and goes on with the next call (a failed call must leave no trace)."""
    return any(isinstance(x, dict) and x.get('abandon') for x in op)


def _op_timeout(op):
    """Per-call timeout override: ops may end with {'to': value}; absent means use the default."""
    for x in op:
        if isinstance(x, dict) and 'to' in x:
            return True, x['to']
    return False, None


def _call(bs, op):
    name = op[0]
    has_to, to = _op_timeout(op)
    tkw = {'timeout': to} if has_to else {}
    if name == 'recv_until':
        kw = dict(tkw)
        if op[2] != 'unset':
            kw['maxsize'] = op[2]
        if op[3]:
            kw['with_delimiter'] = True
        return bs.recv_until(bytes.fromhex(op[1]), **kw)
    if name == 'recv_size':
        return bs.recv_size(op[1], **tkw)
    if name == 'peek':
        return bs.peek(op[1], **tkw)
    if name == 'recv':
        return bs.recv(op[1], **tkw)
    if name == 'recv_flags':
        return bs.recv(op[1], 2, **tkw)     # MSG_PEEK
    if name == 'recv_close':
        if op[1] == 'unset':
            return bs.recv_close(**tkw)
        return bs.recv_close(maxsize=op[1], **tkw)
    raise AssertionError(name)


def _run_recv(case):
    out = core.Outcome()
    log = core.EventLog(keep=False)
    stream = bytes.fromhex(case['stream'])
    clock = SimClock(log, case.get('tick', 0.0))
    total_gap = sum(g for g, _n in case['deliveries']) + (case['close_gap'] or 0.0)
    retry_cap = 40 + 3 * len(stream) + 8 * len(case['deliveries']) + int(total_gap / 0.25)
    sock = SimSocket(clock, log, stream=stream, inbound=case['deliveries'],
                     close_gap=case['close_gap'], recv_split=case['recv_split'],
                     recv_errors=case.get('recv_errors', ()),
                     call_cap=20 * len(case.get('recv_errors', ())) + 4 * (len(stream) + 1) + 4 * (len(case['ops']) + 1) * retry_cap)
    _install_clock(clock)
    kw = {'timeout': case['timeout'], 'maxsize': case['maxsize']}
    if case['recvsize'] is not None:
        kw['recvsize'] = case['recvsize']
    bs = su.BufferedSocket(sock, **kw)
    pos = 0
    classes = set()
    nsteps = 0
    ops = list(case['ops']) + [['recv_close', None]]       # final drain: nothing may be lost

    layers = [bs]

    def conserve(where, i):
        try:
            buf = b''.join(bytes(l.getrecvbuffer()) for l in reversed(layers))
        except Exception as e:       # pragma: no cover
            return out.fail('unexpected-exception', i, 'getrecvbuffer raised %r' % (e,), op='getrecvbuffer')
        rest = bytes(buf) + sock.undelivered()
        if rest != stream[pos:]:
            return out.fail('bytes-not-conserved', i,
                            '%s: returned %d bytes; buffered %r + undelivered %r != remaining stream %r'
                            % (where, pos, bytes(buf)[:60], sock.undelivered()[:60], stream[pos:][:80]),
                            op=ops[i][0], after=where)
        return None

    cur_timeout, cur_maxsize = case['timeout'], case['maxsize']
    for i, op in enumerate(ops):
        attempts = 0
        if op[0] == 'settimeout':
            bs.settimeout(op[1])
            cur_timeout = op[1]
            log.add('op', i, 'settimeout', op[1])
            continue
        if op[0] == 'setmaxsize':
            bs.setmaxsize(op[1])
            cur_maxsize = op[1]
            log.add('op', i, 'setmaxsize', op[1])
            continue
        if op[0] == 'rewrap':
            kw2 = {'timeout': cur_timeout}
            if cur_maxsize is not None:
                kw2['maxsize'] = cur_maxsize
            if op[1] is not None:
                kw2['recvsize'] = op[1]
            bs = su.BufferedSocket(bs, **kw2)
            if cur_maxsize is None:
                bs.setmaxsize(None)         # the constructor wants a number; "no limit" is set afterwards
            layers.append(bs)
            out.probe('second_wrapper_in_mid_stream')
            log.add('op', i, 'rewrap', op[1])
            continue
        has_to, to = _op_timeout(op)
        eff_timeout = to if has_to else cur_timeout
        while True:
            attempts += 1
            nsteps += 1
            if attempts > retry_cap:
                out.fail('no-progress', i, 'op %r did not complete in %d retries after faults stopped'
                         % (op, retry_cap), op=op[0])
                break
            log.add('op', i, op[0], attempts)
            before_returns = len(sock.recv_returns)
            try:
                val = _call(bs, op)
                exc = None
            except su.Timeout as e:
                exc = e
                if bs.getrecvbuffer():
                    classes.add('timeout_with_partial_data')
                    out.probe('timeout_with_partial_data')
                out.fault('timeout')
                if eff_timeout in (None, 0):
                    out.fail('unexpected-exception', i, 'Timeout with timeout=%r' % (eff_timeout,), op=op[0])
                    break
                if conserve('Timeout', i):
                    break
                if _op_abandon(op):
                    out.probe('call_abandoned_after_timeout')
                    break
                continue
            except BlockingIOError as e:
                out.fault('ewouldblock')
                if eff_timeout != 0:
                    out.fail('unexpected-exception', i, 'BlockingIOError with timeout=%r' % (eff_timeout,), op=op[0])
                    break
                if bs.getrecvbuffer():
                    classes.add('ewouldblock_with_partial_data')
                    out.probe('ewouldblock_with_partial_data')
                if conserve('BlockingIOError', i):
                    break
                nxt = sock.next_inbound_event()
                if nxt == INF:
                    out.fail('unexpected-exception', i, 'BlockingIOError after the peer closed', op=op[0])
                    break
                clock.advance_to(nxt)     # the caller's select()
                if _op_abandon(op):
                    out.probe('call_abandoned_after_timeout')
                    break
                continue
            except StepCapExceeded:
                out.fail('no-progress', i, 'op %r made more recv() calls than any correct run needs' % (op,), op=op[0])
                break
            except Cancelled:
                # the call was cancelled from outside while blocked in recv(): nothing may be lost
                out.fault('cancelled_in_recv')
                if bs.getrecvbuffer():
                    out.probe('cancelled_with_partial_data')
                    classes.add('cancelled_with_partial_data')
                if conserve('cancellation', i):
                    break
                continue
            except OSError as e:
                if 'simulated transient socket error' in str(e):
                    # a transient socket error (ECONNRESET-like, one shot): nothing may be lost, the retry goes on
                    out.fault('transient_recv_error')
                    if bs.getrecvbuffer():
                        classes.add('socket_error_with_partial_data')
                        out.probe('socket_error_with_partial_data')
                    if conserve('OSError', i):
                        break
                    continue
                exc = e
                val = None
            except Exception as e:
                exc = e
                val = None
            R = stream[pos:]
            kind, want, consumed = _expected(op, R, cur_maxsize)
            got_kind = 'ok' if exc is None else type(exc).__name__
            log.add('ret', i, got_kind, val)
            if kind == 'prefix':      # recv(n)
                n = op[1]
                if exc is not None:
                    out.fail('wrong-result', i, 'recv(%d) raised %r; remaining %r' % (n, exc, R[:60]), op='recv')
                    break
                if not isinstance(val, bytes) or len(val) > n or not R.startswith(val) or (not val and R):
                    out.fail('wrong-result', i, 'recv(%d) returned %r; remaining stream %r' % (n, val, R[:60]), op='recv')
                    break
                pos += len(val)
            else:
                if got_kind != kind or (kind == 'ok' and bytes(val) != want):
                    out.fail('wrong-result', i,
                             '%r: got %s %r, whole-stream model gives %s %r (remaining stream %r)'
                             % (op, got_kind, val if exc is None else str(exc)[:80], kind, want, R[:80]),
                             op=op[0], want=kind)
                    break
                pos += consumed
                if kind == 'MessageTooLong':
                    classes.add('message_too_long')
                    out.probe('message_too_long')
            if conserve(got_kind, i):
                break
            # boundary classes (computed from what the simulated kernel actually returned)
            if exc is None and op[0] == 'recv_until' and kind == 'ok':
                dl = len(bytes.fromhex(op[1]))
                a = pos - dl
                edge = 0
                for ln in sock.recv_returns:
                    edge += ln
                    if a < edge < pos:
                        classes.add('delimiter_straddles_recv')
                        out.probe('delimiter_straddles_recv')
                        break
            if exc is None and op[0] in ('recv_size',) and kind == 'ok' and len(sock.recv_returns) > before_returns:
                if sum(sock.recv_returns) == pos:
                    classes.add('size_met_at_recv_edge')
                    out.probe('size_met_at_recv_edge')
            break
        if out.violation:
            break
    if out.violation is None and pos != len(stream):
        out.fail('bytes-lost', len(ops) - 1, 'final drain ended at %d of %d' % (pos, len(stream)), op='drain')
    out.steps = nsteps + sock.recv_calls
    out.sim_time = clock.now
    out.digest = log.digest()
    if classes:
        out.nontrivial.append(core.h64(['recv', case['stream'], case['ops'], sorted(classes)]))
    return out


def _run_send(case):
    out = core.Outcome()
    log = core.EventLog(keep=False)
    clock = SimClock(log, case.get('tick', 0.0))
    total = sum(len(op[1]) // 2 for op in case['ops'] if len(op) > 1)
    sock = SimSocket(clock, log, sndbuf=case['sndbuf'], drains=case['drains'],
                     send_split=case['send_split'], send_errors=case.get('send_errors', ()),
                     call_cap=4 * (total + 10) + 20 * len(case['ops']) + 4 * len(case.get('send_errors', ())))
    _install_clock(clock)
    bs = su.BufferedSocket(sock, timeout=case['timeout'])
    handed = bytearray()
    classes = set()
    nsteps = 0

    def conserve(i, where):
        got = bytes(sock.peer_got) + bytes(sock.kbuf) + bs.getsendbuffer()
        if got != bytes(handed):
            return out.fail('send-bytes-not-conserved', i,
                            '%s: peer %r + kernel %r + sendbuffer %r != handed %r'
                            % (where, bytes(sock.peer_got)[-40:], bytes(sock.kbuf)[:40],
                               bs.getsendbuffer()[:40], bytes(handed)[-80:]), op=case['ops'][i][0] if i < len(case['ops']) else 'final-flush')
        return None

    for i, op in enumerate(case['ops']):
        nsteps += 1
        log.add('op', i, op[0])
        if op[0] != 'flush':
            data = bytes.fromhex(op[1])
            handed.extend(data)
            if len(op) > 2 and op[2] == 'bytearray':
                data = bytearray(data)          # any bytes-like object is sendable on a real socket
            elif len(op) > 2 and op[2] == 'memoryview':
                data = memoryview(data)
        ps = sock.partial_sends
        try:
            if op[0] == 'send':
                bs.send(data)
            elif op[0] == 'sendall':
                bs.sendall(data)
            elif op[0] == 'buffer':
                bs.buffer(data)
            else:
                bs.flush()
            ok = True
        except su.Timeout:
            ok = False
            out.fault('send_timeout')
            if case['timeout'] in (None, 0):
                out.fail('unexpected-exception', i, 'Timeout with timeout=%r' % (case['timeout'],), op=op[0])
                break
            if bs.getsendbuffer():
                classes.add('send_timeout_with_unsent')
                out.probe('send_timeout_with_unsent')
        except BlockingIOError:
            ok = False
            out.fault('send_ewouldblock')
            if case['timeout'] != 0:
                out.fail('unexpected-exception', i, 'BlockingIOError with timeout=%r' % (case['timeout'],), op=op[0])
                break
            if sock.drains:
                clock.advance_to(sock.drains[0][0])
        except StepCapExceeded:
            out.fail('no-progress', i, '%s made more send() calls than any correct run needs' % op[0], op=op[0])
            break
        except Cancelled:
            ok = False
            out.fault('cancelled_in_send')
            if bs.getsendbuffer():
                classes.add('cancelled_with_bytes_unsent')
                out.probe('cancelled_with_bytes_unsent')
        except OSError as e:
            if 'simulated transient socket error' in str(e):
                ok = False
                out.fault('transient_send_error')
                if bs.getsendbuffer():
                    classes.add('socket_error_with_bytes_unsent')
                    out.probe('socket_error_with_bytes_unsent')
            else:
                out.fail('unexpected-exception', i, '%r raised %r' % (op[0], e), op=op[0], exc=type(e).__name__)
                break
        except Exception as e:
            out.fail('unexpected-exception', i, '%r raised %r' % (op[0], e), op=op[0], exc=type(e).__name__)
            break
        if sock.partial_sends > ps:
            classes.add('partial_send')
            out.probe('partial_send')
        if conserve(i, op[0]):
            break
        if ok and op[0] in ('send', 'sendall', 'flush') and bs.getsendbuffer():
            out.fail('send-returned-with-bytes-unsent', i,
                     '%s returned normally but %d bytes are still in the send buffer'
                     % (op[0], len(bs.getsendbuffer())), op=op[0])
            break
    if out.violation is None:
        # faults stop: the kernel drains instantly from now on.  Bounded liveness: the
        # remaining bytes must be delivered within two flush() calls.
        sock.drains = []
        clock.tick = 0.0          # a slow caller is part of the fault environment
        n = len(case['ops'])
        sock.send_errors.clear()
        for attempt in range(2):
            nsteps += 1
            try:
                bs.flush()
                break
            except (su.Timeout, BlockingIOError):
                continue
            except OSError as e:
                if 'simulated transient socket error' in str(e):
                    continue
                out.fail('unexpected-exception', n, 'final flush raised %r' % (e,), op='final-flush', exc=type(e).__name__)
                break
            except StepCapExceeded:
                out.fail('no-progress', n, 'final flush made more send() calls than any correct run needs', op='final-flush')
                break
            except Exception as e:
                out.fail('unexpected-exception', n, 'final flush raised %r' % (e,), op='final-flush', exc=type(e).__name__)
                break
        if out.violation is None:
            sock._pump()
            if bs.getsendbuffer() or bytes(sock.peer_got) != bytes(handed):
                out.fail('send-not-delivered', n,
                         'after faults stopped and flush(): peer has %r (+%d unsent), handed %r'
                         % (bytes(sock.peer_got)[-60:], len(bs.getsendbuffer()), bytes(handed)[-60:]),
                         op='final-flush')
    out.steps = nsteps + sock.send_calls
    out.sim_time = clock.now
    out.digest = log.digest()
    if classes:
        out.nontrivial.append(core.h64(['send', case['ops'], case['sndbuf'], sorted(classes)]))
    return out


def _run_ns(case):
    out = core.Outcome()
    log = core.EventLog(keep=False)
    clock = SimClock(log, 0.0)
    _install_clock(clock)
    # the writer's BufferedSocket has the 10 s default timeout: keep the whole drain script
    # below it so that write_ns never legitimately times out (partial sends are the fault here)
    wt = case.get('writer_timeout')
    if wt:
        # the writer times out for real (its BufferedSocket inherits the socket's timeout); the caller
        # then completes the frame with flush() before going on
        drains = [[g, n] for g, n in case['drains']]
    else:
        drains = [[min(g, 0.9), n] for g, n in case['drains'][:10]]
    total = sum(len(f['payload']) // 2 + 12 for f in case['frames'])
    wsock = SimSocket(clock, log, sndbuf=case['sndbuf'], drains=drains,
                      send_split=case['send_split'], call_cap=4 * total + 40 + 40 * len(drains))
    if wt:
        wsock._timeout = float(wt)
    maxsize = case['maxsize']
    w = su.NetstringSocket(wsock, maxsize=maxsize)
    payloads = [bytes.fromhex(f['payload']) for f in case['frames']]
    sent = []
    bounds = []
    classes = set()
    nsteps = 0
    for i, p in enumerate(payloads):
        nsteps += 1
        before = len(wsock.peer_got) + len(wsock.kbuf)
        try:
            w.write_ns(p)
        except su.NetstringMessageTooLong:
            if len(p) <= maxsize:
                out.fail('wrong-result', i, 'write_ns refused a %d-byte payload with maxsize %d' % (len(p), maxsize), op='write_ns')
                break
            if len(wsock.peer_got) + len(wsock.kbuf) != before:
                out.fail('wrong-result', i, 'refused write_ns put bytes on the wire', op='write_ns')
                break
            out.probe('write_refused_oversize')
            continue
        except StepCapExceeded:
            out.fail('no-progress', i, 'write_ns made more send() calls than any correct run needs', op='write_ns')
            break
        except su.Timeout as e:
            if not wt:
                out.fail('unexpected-exception', i, 'write_ns raised %r' % (e,), op='write_ns', exc='Timeout')
                break
            out.fault('ns_write_timeout')
            classes.add('ns_write_timeout_then_flush')
            done = False
            for _try in range(20 + 4 * len(drains)):
                try:
                    w.bsock.flush()
                    done = True
                    break
                except su.Timeout:
                    continue
                except StepCapExceeded:
                    break
                except Exception as e2:
                    out.fail('unexpected-exception', i, 'flush after a write_ns Timeout raised %r' % (e2,), op='flush')
                    break
            if out.violation:
                break
            if not done:
                out.fail('no-progress', i, 'flush() after a write_ns Timeout never completed', op='flush')
                break
        except Exception as e:
            out.fail('unexpected-exception', i, 'write_ns raised %r' % (e,), op='write_ns', exc=type(e).__name__)
            break
        if len(p) > maxsize:
            out.fail('wrong-result', i, 'write_ns accepted a %d-byte payload with maxsize %d' % (len(p), maxsize), op='write_ns')
            break
        sent.append((i, p))
        bounds.append(len(wsock.peer_got) + len(wsock.kbuf))
    if wsock.partial_sends:
        classes.add('partial_send')
        out.probe('partial_send')
    if out.violation is None:
        wsock.drains = []
        wsock._pump()
        wire = bytes(wsock.peer_got)
        if bounds and bounds[-1] != len(wire):
            out.fail('send-not-delivered', len(payloads), 'write_ns returned with %d of %d wire bytes unsent'
                     % (bounds[-1] - len(wire), bounds[-1]), op='write_ns')
    if out.violation is None:
        # deliver the wire to a reader; long gaps only at frame boundaries
        deliveries = []
        start = 0
        for (i, p), end in zip(sent, bounds):
            f = case['frames'][i]
            flen = end - start
            cuts = [c for c in f['cuts']]
            left = flen
            first = True
            for gap, n in cuts:
                if left <= 0:
                    break
                n = min(max(1, n), left)
                deliveries.append([f['pre_gap'] if first else min(gap, 0.9), n])
                first = False
                left -= n
            if left > 0:
                deliveries.append([f['pre_gap'] if first else 0.0, left])
            if len([1 for _ in cuts]) and flen > 1:
                classes.add('frame_split_across_deliveries')
            start = end
        clock2 = SimClock(log, 0.0)
        _install_clock(clock2)
        rsock = SimSocket(clock2, log, stream=wire, inbound=deliveries, close_gap=0.0,
                          recv_split=case['recv_split'], call_cap=8 * len(wire) + 400)
        per_call = case.get('reader_maxsize') is not None
        r = su.NetstringSocket(rsock, timeout=case['ns_timeout'], maxsize=case['reader_maxsize'] if per_call else maxsize)
        for j, (i, p) in enumerate(sent):
            attempts = 0
            while True:
                attempts += 1
                nsteps += 1
                if attempts > 60:
                    out.fail('no-progress', i, 'read_ns did not complete', op='read_ns')
                    break
                try:
                    got = r.read_ns(maxsize=maxsize) if per_call else r.read_ns()
                except su.Timeout:
                    out.fault('timeout')
                    continue
                except StepCapExceeded:
                    out.fail('no-progress', i, 'read_ns made more recv() calls than any correct run needs', op='read_ns')
                    break
                except Exception as e:
                    out.fail('wrong-result', i, 'read_ns raised %r for payload %r (wire %r)' % (e, p[:40], wire[:80]),
                             op='read_ns', exc=type(e).__name__)
                    break
                if got != p:
                    out.fail('wrong-result', i, 'read_ns returned %r, written %r (wire %r)' % (got[:60], p[:60], wire[:80]),
                             op='read_ns')
                break
            if out.violation:
                break
        if out.violation is None:
            out.probe('ns_roundtrip_frames', len(sent))
        out.steps = rsock.recv_calls
        out.sim_time = clock2.now
    out.steps += nsteps + wsock.send_calls
    out.sim_time += clock.now
    out.digest = log.digest()
    if classes and sent:
        out.nontrivial.append(core.h64(['ns', [f['payload'] for f in case['frames']], sorted(classes),
                                        case['recv_split'], case['send_split']]))
    return out


# ------------------------------------------------------------------------------
# minimisation

def shrink(case, fails):
    c = dict(case)
    if c['mode'] in ('threads', 'send-threads'):
        # the schedule is re-searched for every candidate: a smaller program needs other switch points
        from simkit.core import ddmin
        best = [c]

        def fss(cand):
            for seed in range(12):
                for p in (0.5, 0.2, 0.8):
                    c2 = dict(cand, sched={'kind': 'random', 'seed': seed, 'p': p})
                    if fails(c2):
                        best[0] = c2
                        return True
            return False

        for t in range(len(c['threads'])):
            def test(sub, t=t):
                ths = [list(x) for x in best[0]['threads']]
                ths[t] = list(sub)
                return fss(dict(best[0], threads=ths))
            ddmin(list(best[0]['threads'][t]), test)
        ths = [t for t in best[0]['threads'] if t]
        if ths and len(ths) < len(best[0]['threads']):
            fss(dict(best[0], threads=ths))
        if c['mode'] == 'threads':
            shrinkers.shrink_hex_field(best[0], 'stream', fss)
            for simple in ({'recv_split': [0]}, {'recvsize': None}):
                fss(dict(best[0], **simple))
        else:
            fss(dict(best[0], send_split=[0]))
        return best[0]
    if c['mode'] == 'recv':
        c = shrinkers.shrink_list_field(c, 'ops', fails)
        c = shrinkers.shrink_hex_field(c, 'stream', fails)
        c = shrinkers.shrink_list_field(c, 'deliveries', fails)
        c = shrinkers.shrink_list_field(c, 'recv_errors', fails)
        for simple in ({'tick': 0.0}, {'recv_split': [0]}, {'recv_split': [1]}, {'close_gap': 0.0},
                       {'recvsize': None}, {'maxsize': 32768}):
            c = shrinkers.try_set(c, simple, fails)
        c = shrinkers.zero_gaps(c, 'deliveries', fails)
        c = shrinkers.shrink_list_field(c, 'ops', fails)
    elif c['mode'] == 'send':
        c = shrinkers.shrink_list_field(c, 'ops', fails)
        c = shrinkers.shrink_list_field(c, 'drains', fails)
        c = shrinkers.shrink_list_field(c, 'send_errors', fails)
        for simple in ({'tick': 0.0}, {'send_split': [0]}, {'send_split': [1]}, {'sndbuf': 1 << 30}):
            c = shrinkers.try_set(c, simple, fails)
        c = shrinkers.zero_gaps(c, 'drains', fails)
    else:
        c = shrinkers.shrink_list_field(c, 'frames', fails)
        c = shrinkers.shrink_list_field(c, 'drains', fails)
        for simple in ({'send_split': [0]}, {'recv_split': [0]}, {'sndbuf': 1 << 30}, {'ns_timeout': 10}):
            c = shrinkers.try_set(c, simple, fails)
    return c
