"""C04 -- atomic_save never exposes a partially written destination, at any crash point.

Engine: simfs.  For every workload the fault-free run is recorded, then the workload
is re-executed once per crash point (before every seam event, and after the last);
each crash snapshot is judged under process death (kernel view) and under power loss
(every metadata-journal prefix x three adversarial resolutions of un-synced data).
"""
import os
import random

from simkit import core, shrinkers
from engines import simfs
from . import savelib as S

PROPERTY = 'C04'
ENGINE = 'simfs'
LEVEL = 'fault_enumeration'
SOURCE_FILES = ['boltons/fileutils.py']
SIM_TIME_UNIT = 'seam events (file-system calls and write/flush/close on the part file)'
TIERS = {
    'quick': {'budget_s': 20, 'min_runs': 3000, 'block': 100, 'fixed_block': 10},
    'thorough': {'budget_s': 600, 'min_runs': 300000, 'block': 500, 'fixed_block': 10},
}
RULE = ('One evaluation = one workload (text/binary, overwrite, part_file, buffering, buffer size, umask, '
        'relative/absolute destination, destination absent/present, body = script of write/flush calls) with '
        'ALL of its crash points enumerated: the crash is taken immediately before every seam event and after '
        'the last one (coverage.crash_runs counts these executions; coverage.power_loss_images the disk images '
        'judged). 80 fixed workloads on every invocation, the rest drawn from the run PRNG. Non-trivial = a '
        '(workload, crash index) pair whose snapshot had the part file holding a strict non-empty prefix of the '
        'new content in the kernel, or bytes only in the user-space buffer, or the publishing rename/link already '
        'issued; distinct = distinct hashes of such pairs.')
COMPONENTS = {'real': ['boltons.fileutils.AtomicSaver / atomic_save / atomic_rename / replace / set_cloexec',
                       'CPython io.BufferedRandom and io.TextIOWrapper (the part file object)'],
              'stub': ['os module (engines.simfs.SimOS)', 'fcntl module', 'the raw file (SimRaw)',
                       'the disk: volatile inode data, un-synced write list, metadata journal']}
ASSUMPTIONS = ['POSIX semantics of rename (atomic replace), link (EEXIST), open(O_CREAT|O_EXCL) as implemented by simfs',
               'power-loss model: metadata becomes durable in issue order (any journal prefix at or after the last fsync); file data is durable up to the last fsync of that file, later writes may reach the disk in any subset, whole or torn',
               'durability of the rename itself after a normal exit is not required (C04 does not ask for a directory fsync)',
               'the part file is UTF-8 in text mode; nothing is required of the part file after a crash']


SELFTEST_MUTANT = 'drop-fsync'
REQUIRED_PROBES = ['crash_between_link_and_unlink', 'crash_with_bytes_only_in_user_buffer',
                   'crash_with_strict_prefix_in_part_file', 'flush_needed_multiple_raw_writes',
                   'power_loss_drops_unsynced_tail', 'crash_after_publish', 'recovery_with_part_hardlinked_to_dest',
                   'body_interrupted_by_baseexception']


def fidelity_selftest(seed, n=300):
    from simkit import core as _c
    bad = []
    k = 0
    for i in range(n):
        case = S.gen_workload(_c.rng_for(seed, 'C04-fidelity', i), faults=bool(i % 2))
        if case.get('buffering') == 1 and not case.get('text_mode'):
            continue
        case.pop('reuse', None)      # simulator-only dimensions
        case.pop('env', None)
        k += 1
        d = S.fidelity_diff(case)
        if d:
            bad.append((i, d))
    if bad:
        from simkit.driver import HarnessError
        raise HarnessError('simfs disagrees with the real kernel on %d of %d fault-free saves, e.g. %r' % (len(bad), k, bad[0]))
    msg = '%d fault-free saves executed on the real kernel (tmp dir) and on simfs: listing, bytes, mode, call sequence, exception agree' % k
    # process-death view on the real kernel, end to end (forked child _exit()s before its k-th call)
    tried = 0
    for i in range(24):
        case = S.gen_workload(_c.rng_for(seed, 'C04-realcrash', i), faults=False)
        if (case.get('buffering') == 1 and not case.get('text_mode')) or S.body_raises(case):
            continue
        if 'symlink' in (case.get('dest_initial') or {}):
            continue                # the forked enumeration sets up regular files only
        case.pop('reuse', None)
        case.pop('env', None)
        t, problems = S.real_crash_enumeration(case)
        tried += t
        if problems:
            from simkit.driver import HarnessError
            raise HarnessError('REAL kernel crash run disagrees with the property (stub or code?): %s' % problems[0])
    return msg + '; %d forked real-kernel crash points (child _exit before each os-level call): destination always old or new' % tried


def setup(root):
    S.setup(root)


def gen_case(rng, tier):
    case = S.gen_workload(rng, faults=False)
    case['power_seed'] = rng.getrandbits(32)
    if case['body'] and rng.random() < 0.04:
        case['body'] = list(case['body']) + [['close']]     # e.g. handed to a wrapper that closes what it wraps
    elif case['body'] and rng.random() < 0.08:
        # the process is told to die while the body runs: KeyboardInterrupt / SystemExit unwind the with-block
        case['body'] = list(case['body'])
        case['body'].insert(rng.randint(0, len(case['body'])), ['raise', 'base'])
    if rng.random() < 0.3:
        # recovery workload: an earlier save to the same destination died mid-way
        first = S.gen_workload(rng, faults=False)
        for k in ('part_file', 'dest_rel', 'umask', 'dest_initial'):
            first[k] = case[k]
        case['dest_initial'] = None          # the pre-state is whatever the first save left
        case['prior'] = {'case': first, 'crash_at': rng.randint(0, 30)}
        case['overwrite_part'] = rng.random() < 0.7
        case.pop('reuse', None)
        first.pop('reuse', None)
    return case


_FIXED = None


def fixed_cases(tier):
    global _FIXED
    if _FIXED is None:
        cases = []
        for text in (False, True):
            for present in (False, True):
                for overwrite in (True, False):
                    for blk in (8, 8192):
                        bodies = [
                            [],
                            [['write', 'ab' if text else b'ab'.hex()]],
                            [['write', 'a' if text else b'a'.hex()], ['write', 'é\n' if text else b'bc'.hex()],
                             ['flush'], ['write', 'xyz' if text else b'xyz'.hex()]],
                            [['write', ('0123456789' * 3) if text else (b'0123456789' * 3).hex()]],
                            [['write', 'abcdefgh' if text else b'abcdefgh'.hex()], ['write', 'i' if text else b'i'.hex()]],
                        ]
                        for body in bodies:
                            cases.append({'text_mode': text, 'overwrite': overwrite, 'part_file': None,
                                          'buffering': -1, 'blksize': blk, 'umask': 0o022, 'dest_rel': False,
                                          'dest_initial': {'data': b'OLD CONTENT'.hex(), 'mode': 0o644} if present else None,
                                          'body': body, 'power_seed': 1})
        import errno as _e
        for text in (False, True):
            for blk in (8, 8192):
                for body in ([['write', 'abc' if text else b'abc'.hex()]],
                             [['write', ('0123456789' * 3) if text else (b'0123456789' * 3).hex()]]):
                    # a file system without hard links, no-clobber publication
                    cases.append({'text_mode': text, 'overwrite': False, 'part_file': None, 'buffering': -1,
                                  'blksize': blk, 'umask': 0o022, 'dest_rel': False, 'dest_initial': None,
                                  'body': body, 'power_seed': 3, 'env': {'link': _e.EPERM}})
                    # the saver object is used for the second time
                    cases.append({'text_mode': text, 'overwrite': True, 'part_file': None, 'buffering': -1,
                                  'blksize': blk, 'umask': 0o022, 'dest_rel': False, 'dest_initial': None,
                                  'body': body, 'power_seed': 3, 'reuse': 1})
        # scale floor: re-saving a large file whose old version has the same length and differs only late
        for size in (65537, 70001, 300000):
            for text in (False, True):
                newc = ('x' * size) if text else (b'\xab' * size).hex()
                oldb = bytearray((b'x' if text else b'\xab') * size)
                oldb[-3] ^= 0x01
                cases.append({'text_mode': text, 'overwrite': True, 'part_file': None, 'buffering': -1,
                              'blksize': 8192, 'umask': 0o022, 'dest_rel': False,
                              'dest_initial': {'data': bytes(oldb).hex(), 'mode': 0o644},
                              'body': [['write', newc]], 'power_seed': 4, 'crash_points': [0, 5], 'n_crash_faults': 0})
        # recovery floor: the first save (overwrite False/True, destination absent/present) dies at
        # each of its crash points; the second save runs with overwrite_part on
        for ow1 in (False, True):
            for present in (False, True):
                first = {'text_mode': False, 'overwrite': ow1, 'part_file': None, 'buffering': -1, 'blksize': 8,
                         'umask': 0o022, 'dest_rel': False,
                         'dest_initial': {'data': b'OLD CONTENT'.hex(), 'mode': 0o644} if present else None,
                         'body': [['write', b'first save content'.hex()]]}
                for k1 in range(0, 16):
                    for ow2 in (True, False):
                        cases.append({'text_mode': False, 'overwrite': ow2, 'overwrite_part': True, 'part_file': None,
                                      'buffering': -1, 'blksize': 8, 'umask': 0o022, 'dest_rel': False,
                                      'dest_initial': None, 'body': [['write', b'second'.hex()], ['write', b' save!'.hex()]],
                                      'power_seed': 2, 'prior': {'case': first, 'crash_at': k1}})
        _FIXED = cases
    return _FIXED


def case_size(case):
    return len(case['body']) + sum(len(s[1]) for s in case['body'] if s[0] == 'write') + \
        (len(case.get('crash_points') or []) or 30)


def describe_case(case):
    return case


def _allowed(content, old, new):
    if content is None:
        return old is None
    return content == new or (old is not None and content == old)


def _fmt(b):
    return 'absent' if b is None else repr(b[:60])


def run_case(case):
    out = core.Outcome()
    log = core.EventLog(keep=False)
    S.fresh_module()
    dest_arg, dest, part = S.paths(case)
    prior = case.get('prior')

    def start_fs():
        return S.fs_after_prior(prior) if prior else None

    if prior:
        # recovery workload: this save starts from what an earlier save left behind when the
        # process died at one of its crash points
        fs0 = start_fs()
        if fs0 is None:
            out.digest = log.digest()
            return out                      # the earlier save has no such crash point
        old = fs0.read_path(dest)
        log.add('prior', prior['crash_at'], sorted(fs0.dir.items()))
        out.probe('recovery_after_earlier_crash')
        if fs0.lookup(part) is not None:
            out.probe('recovery_with_stale_part_file')
            if fs0.lookup(part) == fs0.lookup(dest):
                out.probe('recovery_with_part_hardlinked_to_dest')
        stale_part = fs0.lexists(part) and not case.get('overwrite_part', False)
        prior_dest_exists = fs0.lexists(dest)
    else:
        di = case.get('dest_initial')
        old = bytes.fromhex(di['data']) if (di and di.get('data') is not None) else None
        stale_part = False
    if prior and case.get('reuse'):
        case = dict(case)
        case.pop('reuse')
    if case.get('reuse') and not prior:
        w = S.run_save(case, simfs.Plan(), None, only_warmup=True)
        if w.exc is not None:
            out.digest = log.digest()
            return out
        old = w.pre_state['dest']           # what the earlier saves of the same object left
        out.probe('saver_instance_reused')
    new = S.new_content(case)
    interrupted = S.body_raises(case)
    if interrupted:
        # the process is being torn down inside the with-block (KeyboardInterrupt / SystemExit): the only
        # complete new content is ALL the writes of the body, so a published prefix is a partial file
        new = S.full_content(case)
    env_fail = bool(case.get('env')) and not case.get('overwrite', True)
    if prior:
        dest_exists = prior_dest_exists
    else:
        dest_exists = (old is not None) or bool(case.get('dest_initial'))   # a dangling symlink exists too
    refused = (dest_exists and not case.get('overwrite', True)) or stale_part

    closed_refusal = False
    base = S.run_save(case, simfs.Plan(), log, fs=start_fs())
    if env_fail and not refused and isinstance(base.exc, OSError):
        refused = True        # e.g. no hard links: the no-clobber save may fail (or succeed some other atomic way)
    if any(st[0] == 'close' for st in case['body']) and not refused and not interrupted \
            and isinstance(base.exc, (ValueError, OSError)):
        refused = True        # the body closed the file it was handed: the save may be refused (or still complete, synced)
        closed_refusal = True
        out.probe('body_closed_the_file_refused')
    if S.name_too_long(case) and not refused and isinstance(base.exc, OSError):
        refused = True        # no room for the part file's name: the save may be refused (or use a shorter name)
        out.probe('name_too_long_refused')
    N = base.sim.n
    out.steps = N
    # ---- fault-free run: A4, A2, A3 ------------------------------------------------------
    if interrupted and not (refused and isinstance(base.exc, OSError)):
        got = base.fs.read_path(dest)
        if not isinstance(base.exc, S.BodyAbort):
            out.fail('unexpected-exception', N, 'the body was interrupted by BodyAbort (a BaseException), the with-block '
                     'ended with %r' % (base.exc,), phase='interrupted')
        elif not _allowed(got, old, new):
            out.fail('partial-dest-after-interrupted-body', N, 'the body was interrupted after %d of its %d steps; the destination '
                     'now holds %s; old %s, complete new %s'
                     % (S.steps_before_raise(case), len(case['body']) - 1, _fmt(got), _fmt(old), _fmt(new)), phase='interrupted')
        else:
            out.probe('body_interrupted_by_baseexception')
    elif base.exc is not None and not (refused and (isinstance(base.exc, OSError) or closed_refusal)):
        out.fail('unexpected-exception', N, 'fault-free save raised %r' % (base.exc,), phase='fault-free')
    elif refused:
        if base.exc is None:
            out.fail('overwrite-refusal-missing', N, 'overwrite=False with an existing destination did not raise')
        elif base.fs.read_path(dest) != old or (base.fs.lookup(part) is not None and not prior):
            out.fail('normal-exit-wrong-dest', N, 'refused save changed the destination or left a part file')
    else:
        got = base.fs.read_path(dest)
        if got != new:
            out.fail('normal-exit-wrong-dest', N, 'after a normal exit the destination holds %s, expected %s'
                     % (_fmt(got), _fmt(new)), phase='fault-free')
        elif base.fs.lookup(part) is not None:
            out.fail('normal-exit-part-left', N, 'after a normal exit the part file still exists', phase='fault-free')
    di0 = case.get('dest_initial') if not prior else None
    if di0 and di0.get('symlink'):
        out.probe('destination_is_symlink')
    if out.violation is None:
        _check_order(base, dest, new, out, N)
    if out.violation is None and not refused and base.sim.binding_changes.get(dest, 0) > 1:
        # (zero is fine when the old content already equals the new one and is left in place)
        out.fail('dest-binding-not-one-step', N, 'the destination name was (re)bound by %d seam calls, expected one atomic step'
                 % base.sim.binding_changes.get(dest, 0))

    # ---- crash enumeration ------------------------------------------------------------------
    points = case.get('crash_points')
    if points is None:
        points = list(range(N + 1))
    crash_runs = images = 0
    if out.violation is None:
        for k in points:
            r = S.run_save(case, simfs.Plan(crash_at=k), log, fs=start_fs())
            crash_runs += 1
            out.steps += r.sim.n
            if not r.crashed:
                if k != r.sim.n or r.exc is not None and not refused:
                    continue    # k beyond the end of this execution
                # the crash right after the last event: judge the final state as a snapshot too
                snap = r.fs.snapshot()
                kind, detail = 'end', None
            else:
                snap = r.sim.crashed
                kind, detail = r.sim.trace[k]
            out.fault('crash')
            log.add('snap', k, sorted(snap.dir.items()), snap.durable_meta, len(snap.journal))
            # (P) process death
            pv = snap.process_view(dest)
            if not _allowed(pv, old, new):
                out.fail('partial-dest-after-process-death', k,
                         'process dies before event %d (%s %r): destination reads %s; old %s, new %s'
                         % (k, kind, detail, _fmt(pv), _fmt(old), _fmt(new)), view='process-death')
                break
            # A2 also on the prefix executed so far
            if _check_order(r, dest, new, out, k):
                break
            # (S) power loss
            rng = random.Random(core.mix(case.get('power_seed', 0), k))
            bad = None
            for j in snap.meta_prefixes():
                d = snap.dir_after_prefix(j)
                ino = d.get(dest)
                if ino is None:
                    images += 1
                    if old is not None:
                        bad = (j, 'dir', None)
                        break
                    continue
                for label, content in snap.data_choices(ino, rng):
                    images += 1
                    if not _allowed(content, old, new):
                        bad = (j, label, content)
                        break
                if bad:
                    break
            if bad:
                out.fail('partial-dest-after-power-loss', k,
                         'power fails before event %d (%s %r); %d of %d journal records durable, un-synced data: %s; '
                         'destination reads %s; old %s, new %s'
                         % (k, kind, detail, bad[0], len(snap.journal), bad[1], _fmt(bad[2]), _fmt(old), _fmt(new)),
                         view='power-loss')
                break
            # probes / non-trivial classification
            pino = snap.dir.get(part)
            nontriv = False
            if pino is not None:
                pdata, psynced, ppending = snap.inodes[pino]
                if 0 < len(pdata) < len(new) and new.startswith(pdata):
                    nontriv = True
                    out.probe('crash_with_strict_prefix_in_part_file')
                if len(pdata) < len(new) and r.entered:
                    out.probe('crash_with_bytes_only_in_user_buffer')
                    nontriv = True
                if ppending and psynced != pdata:
                    out.probe('power_loss_drops_unsynced_tail')
            if r.sim.publish:
                nontriv = True
                if snap.dir.get(part) is not None and snap.dir.get(dest) == snap.dir.get(part):
                    out.probe('crash_between_link_and_unlink')
                else:
                    out.probe('crash_after_publish')
            if nontriv:
                out.nontrivial.append(core.h64([_wl_key(case), k]))
    # ---- crash points of FAILING saves: the process may also die while an error is being handled ----
    if out.violation is None and not prior and not case.get('reuse'):
        from . import c05
        pre = c05.Pre(case)
        plans = case.get('crash_faults')
        if plans is None:
            cand = [(key, f) for _k, _lab, key, f in c05._faultable(base.sim.occ, base.sim.trace, pre)
                    if f[0] in ('errno', 'disk-full')]
            frng = random.Random(core.mix(case.get('power_seed', 0), 77))
            nf = case.get('n_crash_faults', 3)
            plans = [[key[0], key[1], f[0], f[1]] for key, f in (frng.sample(cand, nf) if len(cand) > nf else cand)]
        for kind_, occ_, fk, arg in plans:
            fplan = {(kind_, occ_): (fk, arg)}
            fr = S.run_save(case, simfs.Plan(faults=fplan), None)
            if not fr.sim.fired:
                continue
            pts = case.get('crash_points_faulted')
            for k in (pts if pts is not None else range(fr.sim.n + 1)):
                r = S.run_save(case, simfs.Plan(crash_at=k, faults=fplan), log)
                crash_runs += 1
                out.steps += r.sim.n
                if not r.crashed:
                    continue
                snap = r.sim.crashed
                kd, detail = r.sim.trace[k]
                out.fault('crash-in-failing-save')
                note = ' of a save failing with %s at %s #%d' % (
                    'disk full' if fk == 'disk-full' else os.strerror(arg) if isinstance(arg, int) else fk, kind_, occ_)
                n_img = _judge_snapshot(out, snap, k, kd, detail, dest, old, new, case,
                                        {'faulted': True, 'note': note})
                if n_img < 0:
                    out.extra['found_crash_fault'] = [[kind_, occ_, fk, arg], k]
                    break
                images += n_img
                if _check_order(r, dest, new, out, k):
                    out.extra['found_crash_fault'] = [[kind_, occ_, fk, arg], k]
                    break
                if any(ev_k > fr.sim.fired[0][0] for ev_k in (k,)):
                    out.probe('crash_during_error_handling')
            if out.violation is not None:
                break
    writes = [d for kd, d in base.sim.trace if kd == 'raw.write']
    flushes = 0
    cnt = 0
    for kd, d in base.sim.trace:
        if kd == 'fo.flush':
            cnt = 0
        elif kd == 'raw.write':
            cnt += 1
            if cnt == 2:
                flushes += 1
    if flushes:
        out.probe('flush_needed_multiple_raw_writes', flushes)
    out.extra['crash_runs'] = crash_runs
    out.extra['power_loss_images'] = images
    out.extra['workloads'] = 1
    out.sim_time = float(out.steps)
    out.digest = log.digest()
    return out


def _judge_snapshot(out, snap, k, kind, detail, dest, old, new, case, sig_extra):
    """(P) and (S) views of one crash snapshot.  -> number of power-loss images judged, or -1 after a violation."""
    pv = snap.process_view(dest)
    if not _allowed(pv, old, new):
        out.fail('partial-dest-after-process-death', k,
                 'process dies before event %d (%s %r)%s: destination reads %s; old %s, new %s'
                 % (k, kind, detail, sig_extra.get('note', ''), _fmt(pv), _fmt(old), _fmt(new)),
                 view='process-death', **{x: y for x, y in sig_extra.items() if x != 'note'})
        return -1
    rng = random.Random(core.mix(case.get('power_seed', 0), k))
    images = 0
    for j in snap.meta_prefixes():
        d = snap.dir_after_prefix(j)
        ino = d.get(dest)
        if ino is None:
            images += 1
            if old is not None:
                bad = (j, 'dir', None)
                break
            continue
        bad = None
        for label, content in snap.data_choices(ino, rng):
            images += 1
            if not _allowed(content, old, new):
                bad = (j, label, content)
                break
        if bad:
            break
    else:
        return images
    out.fail('partial-dest-after-power-loss', k,
             'power fails before event %d (%s %r)%s; %d of %d journal records durable, un-synced data: %s; '
             'destination reads %s; old %s, new %s'
             % (k, kind, detail, sig_extra.get('note', ''), bad[0], len(snap.journal), bad[1], _fmt(bad[2]),
                _fmt(old), _fmt(new)),
             view='power-loss', **{x: y for x, y in sig_extra.items() if x != 'note'})
    return -1


def _wl_key(case):
    return {k: v for k, v in case.items() if k not in ('crash_points', 'power_seed')}


def _prior_shrink(c, fails):
    if not c.get('prior'):
        return c
    c2 = dict(c)
    c2.pop('prior')
    if fails(c2):
        return c2
    p = c['prior']
    small = shrinkers.shrink_list_field(p['case'], 'body', lambda pc: fails(dict(c, prior={'case': pc, 'crash_at': p['crash_at']})))
    return dict(c, prior={'case': small, 'crash_at': p['crash_at']})


def _check_order(r, dest, new, out, step):
    """A2: at the instant a name is bound to the part file's inode its kernel-visible data is
    the complete new content, fully synced, and nothing is written to it afterwards."""
    for ev, path, ino, data, unsynced, kind in r.sim.publish:
        if path != dest:
            continue
        if data != new:
            return out.fail('published-before-complete', step,
                            '%s at event %d made the destination visible while the file held %s of %s'
                            % (kind, ev, _fmt(data), _fmt(new)), view='order')
        if unsynced:
            return out.fail('published-before-synced', step,
                            '%s at event %d made the destination visible before its data was fsynced'
                            % (kind, ev), view='order')
    if r.sim.writes_after_publish:
        return out.fail('write-after-publish', step, 'the file was written to after it became the destination', view='order')
    return None


def shrink(case, fails):
    c = dict(case)
    o = run_case(c)
    if o.violation is not None and 'found_crash_fault' in o.extra and 'crash_faults' not in c:
        plan, k = o.extra['found_crash_fault']
        c2 = dict(c, crash_faults=[plan], crash_points_faulted=[k], crash_points=[])
        if fails(c2):
            return _shrink_rest(c2, fails)
    return _shrink_rest(c, fails)


def _shrink_rest(case, fails):
    c = dict(case)
    o = run_case(c)
    if o.violation is not None and isinstance(o.violation['step'], int) and 'crash_points' not in c:
        c2 = dict(c)
        c2['crash_points'] = [o.violation['step']]
        if fails(c2):
            c = c2
    c = _prior_shrink(c, fails)
    c = shrinkers.shrink_list_field(c, 'body', fails)
    for simple in ({'part_file': None}, {'dest_rel': False}, {'umask': 0o022}, {'buffering': -1},
                   {'blksize': 8192}, {'blksize': 8}, {'reuse': 0}, {'env': None}, {'text_mode': False}):
        if simple == {'text_mode': False} and c.get('text_mode'):
            continue       # body encoding differs; keep
        c = shrinkers.try_set(c, simple, fails)
    # shorten written chunks
    for i, st in enumerate(c['body']):
        if st[0] == 'write' and len(st[1]) > 2:
            for keep in (1, 2, 4, 8):
                unit = keep if c.get('text_mode') else keep * 2
                if unit < len(st[1]):
                    c2 = dict(c)
                    c2['body'] = list(c['body'])
                    c2['body'][i] = ['write', st[1][:unit]]
                    if 'crash_points' in c2:
                        c2.pop('crash_points')
                    if fails(c2):
                        c = c2
                        break
    if 'crash_points' not in c:
        o = run_case(c)
        if o.violation is not None:
            c2 = dict(c)
            c2['crash_points'] = [o.violation['step']]
            if fails(c2):
                c = c2
    return c


def oracle_selftest():
    """Hand-written disk histories: the power-loss model must produce exactly the expected images."""
    import os as _os
    import random as _r
    from simkit.driver import HarnessError

    def images(fs, path):
        snap = fs.snapshot()
        got = set()
        for j in snap.meta_prefixes():
            d = snap.dir_after_prefix(j)
            ino = d.get(path)
            if ino is None:
                got.add(None)
                continue
            for _label, content in snap.data_choices(ino, _r.Random(1)):
                got.add(content)
        return got, snap.process_view(path)

    flags = _os.O_RDWR | _os.O_CREAT | _os.O_EXCL
    bad = []
    # 1. write, NO fsync, rename: the name may be durable while the data is not
    fs = simfs.SimFS()
    fd = fs.open('/sim/dir/p', flags, 0o644)
    fs.write(fd, b'abcdef')
    fs.close(fd)
    fs.rename('/sim/dir/p', '/sim/dir/d')
    got, pv = images(fs, '/sim/dir/d')
    if pv != b'abcdef' or None not in got or b'' not in got or b'abcdef' not in got:
        bad.append('unsynced rename: %r / %r' % (got, pv))
    # 2. write, fsync, rename: absent or complete, nothing else
    fs = simfs.SimFS()
    fd = fs.open('/sim/dir/p', flags, 0o644)
    fs.write(fd, b'abcdef')
    fs.fsync(fd)
    fs.close(fd)
    fs.rename('/sim/dir/p', '/sim/dir/d')
    got, pv = images(fs, '/sim/dir/d')
    if got != {None, b'abcdef'}:
        bad.append('synced rename: %r' % (got,))
    # 3. replace an existing, durable destination after fsync: old or new, never absent
    fs = simfs.SimFS()
    fs.preload('/sim/dir/d', b'OLD', 0o644)
    fd = fs.open('/sim/dir/p', flags, 0o644)
    fs.write(fd, b'NEW!')
    fs.fsync(fd)
    fs.close(fd)
    fs.rename('/sim/dir/p', '/sim/dir/d')
    got, pv = images(fs, '/sim/dir/d')
    if got != {b'OLD', b'NEW!'}:
        bad.append('replace: %r' % (got,))
    # 4. fsync, then more writes: the tail may be lost or torn, the synced prefix never
    fs = simfs.SimFS()
    fd = fs.open('/sim/dir/p', flags, 0o644)
    fs.write(fd, b'abc')
    fs.fsync(fd)
    fs.write(fd, b'defgh')
    got, pv = images(fs, '/sim/dir/p')
    if b'abc' not in got or b'abcdefgh' not in got or any(c is not None and not c.startswith(b'abc') for c in got):
        bad.append('tail after fsync: %r' % (got,))
    # 5. unlink + rename is two steps: the destination can be absent in between
    fs = simfs.SimFS()
    fs.preload('/sim/dir/d', b'OLD', 0o644)
    fd = fs.open('/sim/dir/p', flags, 0o644)
    fs.write(fd, b'NEW!')
    fs.fsync(fd)
    fs.close(fd)
    fs.unlink('/sim/dir/d')
    fs.rename('/sim/dir/p', '/sim/dir/d')
    got, pv = images(fs, '/sim/dir/d')
    if None not in got:
        bad.append('unlink+rename: %r' % (got,))
    if bad:
        raise HarnessError('simfs durability model self-test failed: ' + '; '.join(bad))
    return '5 hand-written disk histories give exactly the expected power-loss images'
