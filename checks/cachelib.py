"""Shared harness for C02/C03: codecs, executing one operation on a real LRI/LRU,
probing contents and eviction order through the public API only."""
import operator

from engines import threadsim
from models import lru_model as M

cu = None            # boltons.cacheutils
CU_FILE = None       # its source path (the traced file)
_REAL_LOCK_TYPES = ()
_ORIG_LOCK_FACTORY = None
_REAL_LOCK_FACTORIES = (None, None)
_MODULE_LOCK_NAMES = {}


def setup(root):
    global cu, CU_FILE, _REAL_LOCK_TYPES
    import threading
    import boltons.cacheutils as m
    cu = m
    CU_FILE = m.__file__
    _REAL_LOCK_TYPES = (type(threading.RLock()), type(threading.Lock()))
    global _ORIG_LOCK_FACTORY, _REAL_LOCK_FACTORIES
    _ORIG_LOCK_FACTORY = getattr(m, 'RLock', None)
    _REAL_LOCK_FACTORIES = (threading.RLock, threading.Lock)
    # every module-level name bound to a real lock factory is a seam (the module may build its own
    # lock class on top of threading.Lock: that class is code under test and stays as it is)
    import _thread
    global _MODULE_LOCK_NAMES
    _MODULE_LOCK_NAMES = {}
    for name, val in list(vars(m).items()):
        if val is threading.RLock or val is getattr(_thread, 'RLock', None):
            _MODULE_LOCK_NAMES[name] = 'rlock'
        elif val is threading.Lock or val is _thread.allocate_lock:
            _MODULE_LOCK_NAMES[name] = 'lock'
        elif val is threading.Event:
            _MODULE_LOCK_NAMES[name] = 'event'

    def tiny():
        c = m.LRU(max_size=1)
        c['x'] = 1
        c['y'] = 2
    threadsim.install(m)
    threadsim.selfcheck(tiny)


# -- codecs ----------------------------------------------------------------------

def dk(j):
    """decode a JSON key/value"""
    if isinstance(j, dict):
        k = j['k']
        if k == 'f':
            return float(j['v'])
        if k == 'b':
            return bool(j['v'])
        if k == 'n':
            return None
        if k == 't':
            return tuple(dk(x) for x in j['v'])
        raise ValueError(j)
    if isinstance(j, list):
        return tuple(dk(x) for x in j)
    return j


def dpairs(jp):
    return [(dk(k), dk(v)) for k, v in jp]


OPERAND_KINDS = ('dict', 'userdict', 'proxy', 'chainmap', 'ordered', 'lri', 'lru', 'dict_reflected',
                 'userdict_reflected', 'lri_reflected', 'none', 'int', 'str', 'pairs_list', 'none_reflected')
NOT_A_MAPPING = ('none', 'int', 'str', 'pairs_list')      # a dict is never equal to one of these


def operand(pairs, kind):
    """The right-hand side of ==/!=: the same pairs as a plain dict or as another mapping type."""
    import collections
    import types
    d = dict(pairs)
    kind = kind.replace('_reflected', '')
    if kind == 'none':
        return None
    if kind == 'int':
        return len(d)
    if kind == 'str':
        return ''.join(str(k) for k in d)
    if kind == 'pairs_list':
        return list(d.items())
    if kind == 'dict':
        return d
    if kind == 'userdict':
        return collections.UserDict(d)
    if kind == 'proxy':
        return types.MappingProxyType(d)
    if kind == 'chainmap':
        return collections.ChainMap(d)
    if kind == 'ordered':
        return collections.OrderedDict(d)
    if kind in ('lri', 'lru'):
        o = (cu.LRI if kind == 'lri' else cu.LRU)(max_size=max(1, len(d)))
        # (filled newest-first: equal contents, but a different recency history than the cache it is compared with)
        for k, v in reversed(list(d.items())):
            o[k] = v
        return o
    raise AssertionError(kind)


class KeysOnly:
    """The minimum dict.update() asks of a mapping: keys() and __getitem__ (no items(), no __iter__ --
    sqlite3.Row, shelve-like and C-level mapping objects look like this)."""

    def __init__(self, pairs):
        self._d = dict(pairs)

    def keys(self):
        return list(self._d)

    def __getitem__(self, k):
        return self._d[k]


def source_cache(pairs, form):
    """Another LRI/LRU filled by assigning the pairs one by one (a repeated key is re-assigned, so the
    source's recency order differs from its iteration order), big enough to evict nothing."""
    src = (cu.LRI if form == 'lri_src' else cu.LRU)(max_size=max(1, len(pairs)))
    for k, v in pairs:
        src[k] = v
    return src


def compare(c, name, pairs, kind='dict'):
    other = operand(pairs, kind)
    if kind.endswith('_reflected'):
        return (other == c) if name == 'eq' else (other != c)
    return (c == other) if name == 'eq' else (c != other)


def model_op(op):
    """JSON op -> op understood by models.lru_model (decoded keys; update args
    normalised to the sequence of assignments the statement describes)."""
    name = op[0]
    if name in ('set',):
        return ('set', dk(op[1]), dk(op[2]))
    if name in ('get', 'del', 'pop', 'in'):
        return (name, dk(op[1]))
    if name in ('getd', 'setdefault', 'popd'):
        return (name, dk(op[1]), dk(op[2]))
    if name == 'getn':              # get(k) with the default left out
        return ('getd', dk(op[1]), None)
    if name == 'setdefaultn':       # setdefault(k) with the default left out
        return ('setdefault', dk(op[1]), None)
    if name in ('update', 'ior'):
        pairs = dpairs(op[1])
        form = op[2] if len(op) > 2 else 'dict'
        if form in ('dict', 'kwargs', 'bothdict', 'lri_src', 'lru_src', 'keysonly'):
            # (another cache as the source is read like any mapping: in its iteration order)
            pairs = list(dict(pairs).items())
        if form in ('both', 'bothdict'):
            # positional items first, then the keyword items, one assignment each
            pairs = pairs + list(dict(dpairs(op[3])).items())
        return (name, pairs)
    if name in ('update_self', 'ior_self', 'iter_hold'):
        return ('noop',)
    if name == 'update_rmw':
        return ('update_rmw', [dk(k) for k in op[1]], op[2])
    if name == 'update_bad':
        if len(op) > 2 and op[2] == 'mapping_raises':
            return ('update_bad', list(dict(dpairs(op[1])).items()))      # a mapping has each key once
        return ('update_bad', dpairs(op[1]))
    if name in ('eq', 'ne'):
        if len(op) > 2 and op[2].replace('_reflected', '') in NOT_A_MAPPING:
            return (name, [(('not', 'a', 'mapping'), 0)])      # compares unequal whatever the contents
        return (name, list(dict(dpairs(op[1])).items()))
    return (name,)


class FailingMapping:
    """keys()/__getitem__ source (no items()) whose last key cannot be read."""

    def __init__(self, pairs):
        self._d = dict(pairs)
        self._bad = ('unreadable', 'key')

    def keys(self):
        return list(self._d) + [self._bad]

    def __getitem__(self, k):
        if k == self._bad:
            raise ValueError('backend failed reading %r' % (k,))
        return self._d[k]


class Ctx:
    """Per-run harness state shared by the operations (callback log, scheduler)."""

    def __init__(self, sched=None):
        self.sched = sched
        self.on_miss_calls = []
        self.cache = None
        self.kept_iterators = []

    def make_on_miss(self, kind):
        if kind == 'none':
            return None

        def on_miss(key):
            self.on_miss_calls.append(key)
            if self.sched is not None and self.sched.cur is not None:
                self.sched.yield_point(('on_miss',))
            if isinstance(key, tuple) and key[:1] == ('side',):
                return ('miss', key)
            if kind == 'raises' and M.on_miss_raises(key):
                raise LookupError('no such record: %r' % (key,))
            if kind == 'reent_same':
                # a read-ahead loader: stores the missing key itself before returning its value
                self.cache[key] = ('pre', key)
            elif kind == 'reent_set':
                self.cache[('side', key)] = ('sideval', key)
            elif kind == 'reent_get':
                self.cache.get(('side', key), None)
            return ('miss', key)
        return on_miss


def make_cache(case, ctx, sched=None):
    """Build the cache under test with every lock replaced by a simulated one."""
    cls = getattr(cu, case['cls'])
    if sched is not None:
        # the lock seam: whatever factory the module bound to the name RLock is replaced by
        # the simulated lock of the same kind (a plain Lock stays non re-entrant)
        for name, kind in _MODULE_LOCK_NAMES.items():
            if kind == 'event':
                setattr(cu, name, lambda *a, **k: threadsim.SimEvent(sched))
            elif kind == 'lock':
                setattr(cu, name, lambda *a, **k: threadsim.SimLock(sched))
            else:
                setattr(cu, name, lambda *a, **k: threadsim.SimRLock(sched))
        if 'RLock' not in _MODULE_LOCK_NAMES and getattr(_ORIG_LOCK_FACTORY, '__module__', None) != cu.__name__:
            # bound to something else that is not the module's own code (a dummy, a C factory ...)
            cu.RLock = lambda *a, **k: threadsim.SimRLock(sched)
    import threading
    saved = (threading.RLock, threading.Lock)
    if sched is not None:
        # a refactor may create its lock through the threading module at construction time
        threading.RLock = lambda *a, **k: threadsim.SimRLock(sched)
        threading.Lock = lambda *a, **k: threadsim.SimLock(sched)
    try:
        c = cls(max_size=case['max_size'], on_miss=ctx.make_on_miss(case.get('on_miss', 'none')))
    finally:
        threading.RLock, threading.Lock = saved
    if sched is not None:
        # ... or some other way: replace any real lock object found on the instance
        for name, val in list(getattr(c, '__dict__', {}).items()):
            if isinstance(val, _REAL_LOCK_TYPES):
                setattr(c, name, threadsim.SimRLock(sched) if 'RLock' in type(val).__name__
                        else threadsim.SimLock(sched))
    ctx.cache = c
    return c


def exec_op(c, op, ctx):
    """Run one JSON op on the real cache.  -> (outcome, post) where post is an optional
    callable run *after* the return stamp (used to inspect a copy())."""
    name = op[0]
    try:
        if name == 'set':
            c[dk(op[1])] = dk(op[2])
            return ('ok', None), None
        if name == 'get':
            return ('ok', c[dk(op[1])]), None
        if name == 'getd':
            return ('ok', c.get(dk(op[1]), dk(op[2]))), None
        if name == 'setdefault':
            return ('ok', c.setdefault(dk(op[1]), dk(op[2]))), None
        if name == 'getn':
            return ('ok', c.get(dk(op[1]))), None
        if name == 'setdefaultn':
            return ('ok', c.setdefault(dk(op[1]))), None
        if name == 'del':
            del c[dk(op[1])]
            return ('ok', None), None
        if name == 'pop':
            return ('ok', c.pop(dk(op[1]))), None
        if name == 'popd':
            return ('ok', c.pop(dk(op[1]), dk(op[2]))), None
        if name == 'popitem':
            return ('ok', tuple(c.popitem())), None
        if name == 'clear':
            c.clear()
            return ('ok', None), None
        if name == 'update':
            pairs = dpairs(op[1])
            form = op[2] if len(op) > 2 else 'dict'
            if form == 'dict':
                c.update(dict(pairs))
            elif form == 'pairs':
                c.update(pairs)
            elif form == 'iter':
                c.update(iter(pairs))
            elif form in ('lri_src', 'lru_src'):
                c.update(source_cache(pairs, form))
            elif form == 'keysonly':
                c.update(KeysOnly(pairs))
            elif form == 'both':
                kw = dict(dpairs(op[3]))
                c.update(pairs, **kw)
            elif form == 'bothdict':
                kw = dict(dpairs(op[3]))
                c.update(dict(pairs), **kw)
            else:
                c.update(**dict(pairs))
            return ('ok', None), None
        if name == 'ior':
            form = op[2] if len(op) > 2 else 'dict'
            r = operator.ior(c, source_cache(dpairs(op[1]), form) if form in ('lri_src', 'lru_src') else dict(dpairs(op[1])))
            return ('ok', None if r is c else 'ior-returned-another-object'), None
        if name == 'in':
            return ('ok', dk(op[1]) in c), None
        if name == 'repr':
            return ('ok', type(repr(c)).__name__), None
        if name == 'len':
            return ('ok', len(c)), None
        if name == 'dict':
            return ('ok', dict(c)), None
        if name == 'keys':
            ks = list(c)
            d = {}
            for k in ks:
                d[k] = None
            return ('ok', ('keys', len(ks), d)), None
        if name in ('eq', 'ne'):
            return ('ok', compare(c, name, dpairs(op[1]), op[2] if len(op) > 2 else 'dict')), None
        if name == 'iter_hold':
            # a loop over the cache that stops after the first key and keeps its iterator (zip() with a shorter
            # sequence, a for-loop with a break whose iterator is still referenced)
            it = iter(c)
            next(it, None)
            ctx.kept_iterators.append(it)
            return ('ok', None), None
        if name == 'update_rmw':
            tag = op[2]
            c.update((dk(k), '%s>%s' % (c.get(dk(k), 'none'), tag)) for k in op[1])
            return ('ok', None), None
        if name == 'update_bad':
            # a source that fails part-way: like dict.update, the pairs produced before the failure are stored
            good = dpairs(op[1])
            variant = op[2] if len(op) > 2 else 'malformed'
            if variant == 'gen_raises':
                def failing():
                    for kv in good:
                        yield kv
                    raise ValueError('source failed after %d pairs' % len(good))
                c.update(failing())
            elif variant == 'mapping_raises':
                c.update(FailingMapping(good))
            else:
                c.update(good + [('not-a-pair',)])
            return ('ok', 'update() accepted a failing source'), None
        if name == 'update_self':
            c.update(c)
            return ('ok', None), None
        if name == 'ior_self':
            r = operator.ior(c, c)
            return ('ok', None if r is c else 'ior-returned-another-object'), None
        if name == 'eqself':
            return ('ok', c == c), None
        if name == 'copy':
            c2 = c.copy()
            holder = {'c2': c2}

            def post():
                return describe_copy(holder['c2'])
            return ('ok', 'copy-pending'), post
        raise AssertionError('unknown op %r' % (op,))
    except threadsim.SimAbort:
        raise
    except RecursionError:
        return ('exc', 'RecursionError'), None
    except Exception as e:
        return ('exc', type(e).__name__), None


def describe_copy(c2):
    try:
        items = dict(c2)
        ms = getattr(c2, 'max_size', None)
        pr = probe(c2, ms if isinstance(ms, int) and 0 < ms <= 4096 else max(1, len(items)))
        return {'cls': type(c2).__name__, 'max_size': ms, 'items': items, 'order': pr['order']}
    except threadsim.SimAbort:
        raise
    except Exception as e:
        return {'cls': type(c2).__name__, 'error': type(e).__name__}


def keys_outcome_from_model(d):
    return ('keys', len(d), {k: None for k in d})


def probe(c, max_size, order_limit=400):
    """Contents, length and eviction order (oldest -> newest) via the public API:
    insert max_size fresh keys one at a time and record which key disappears.
    For very large caches (max_size > order_limit) only contents and length are probed
    (the order probe is quadratic); res['order'] is then None."""
    res = {'error': None, 'over_capacity': False}
    items = dict(c)
    res['items'] = items
    res['len'] = len(c)
    if max_size > order_limit:
        res['order'] = None
        res['left'] = []
        try:
            c[('probe', 0)] = 0              # still usable?
            if len(c) > max_size:
                res['over_capacity'] = True
        except threadsim.SimAbort:
            raise
        except Exception as e:
            res['error'] = type(e).__name__
        return res
    order = []
    prev = dict(items)
    original = dict(items)
    try:
        for i in range(max_size):
            c[('probe', i)] = i
            cur = dict(c)
            if len(cur) > max_size:
                res['over_capacity'] = True
            gone = [k for k in prev if k not in cur]
            for k in gone:
                order.append(k if k in original else ('probe-evicted', k))
            prev = cur
            if all(k not in cur for k in original):
                break
    except threadsim.SimAbort:
        raise
    except Exception as e:
        res['error'] = type(e).__name__
    res['order'] = order
    res['left'] = [k for k in original if k in prev]
    return res
