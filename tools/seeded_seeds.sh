#!/bin/sh
# Detection stability: every kept seeded change under several VERIF_SEED values (scratch worktrees; default quick budget).
cd "$(dirname "$0")/.." || exit 2
first=${1:-1}; last=${2:-2}
for d in seeded/*/; do
  id=$(basename "$d")
  line="$id"
  for seed in $(seq "$first" "$last"); do
    out=$(VERIF_SEED=$seed timeout 1800 /venv/bin/python tools/seeded.py "seeded/$id" --scratch --no-tests 2>/dev/null)
    ex=$(printf '%s' "$out" | /venv/bin/python -c "
import json,sys
try:
    r=json.load(sys.stdin); print(','.join(str(v['exit']) for k,v in r.items() if k.startswith('check_')))
except Exception: print('?')")
    line="$line seed$seed=$ex"
  done
  echo "$line"
done
