#!/bin/sh
# Everything, in order (several hours): self-tests, quick checks, sensitivity and false-alarm regressions, soak.
cd "$(dirname "$0")/.." || exit 2
set -x
for p in C02 C03 C04 C05 C12 C15 C18; do ./check $p --selftest || exit 1; done
for p in C02 C03 C04 C05 C12 C15 C18; do ./check $p --tier quick || exit 1; done
tools/mutants_all.sh 4 || exit 1
tools/benign_all.sh 8 || exit 1
tools/seeded_all.sh 8 || exit 1        # applies each patch to /repo and undoes it: run nothing else meanwhile
tools/soak.sh 1 10 || exit 1
