#!/usr/bin/env python3
"""Regenerate /verif/MANIFEST.json from the table below (single source of truth)."""
import json, os
HERE = os.path.dirname(os.path.dirname(os.path.abspath(__file__)))
BASELINE_OFF = "cd /repo && /venv/bin/python -m pytest -ra -q -p no:cacheprovider --timeout=900 --continue-on-collection-errors"

NA = {
 'C01': "OrderedMultiDict is a private in-memory object whose behaviour is a deterministic function of the caller's operation sequence: no schedule, clock, I/O, peer, fault or random draw exists for a simulator to own (stateful PBT would be a different technique).",
 'C06': "URL quoting/parsing/rendering are pure functions of their text arguments; nothing nondeterministic to simulate.",
 'C07': "URL.navigate/normalize is a pure function of (base, reference).",
 'C08': "remap/research/get_path are pure functions of (structure, callbacks); traversal order is fixed by the code.",
 'C09': "chunking/windowing/splitting/grouping helpers are pure functions of (sequence, parameters).",
 'C10': "priority queues / BarrelList: in-memory, single caller, deterministic in the operation sequence; list splitting is synchronous.",
 'C11': "IndexedSet: in-memory; tombstone compaction is synchronous and fully determined by the history.",
 'C13': "funcutils.wraps/FunctionBuilder: pure function of a signature; the quantifier is over programs, not executions.",
 'C14': "shell quoting / int lists / gzip: pure encoders; /bin/sh would be a deterministic external evaluator, not a fault source.",
 'C16': "traceback parse/format: pure text functions and frame walking that is deterministic given the program.",
 'C17': "OneToOne/ManyToMany/FrozenDict: in-memory, deterministic in the history; no seam.",
 'C19': "line readers: pure functions of (content, block size); reads of a seekable regular file have no legal nondeterminism and the block size is a caller argument.",
 'C20': "ThresholdCounter: in-memory stream summary, deterministic in the stream; its compaction is synchronous.",
}

CHECKS = {
 'C02': dict(engine='threadsim', category='exploration', design_ref='4.2',
   technique='deterministic simulation, sequential (no pre-emption) configuration of the threadsim cache harness: seeded operation histories checked step by step against an executable reference cache, destructive eviction-order probe, ddmin replay',
   text='Seeded histories of 1-40 dict-API operations (including |=, copy, ==, re-entrant on_miss callbacks, equal-but-differently-typed keys) on LRI and LRU with small max_size; after every step outcome, contents, len, the three counters and the on_miss call log are compared with the reference cache of models/lru_model.py, the eviction order is probed through the public API at the end and after three seeded prefixes. No fault or schedule dimension exists in this property (faults_fired is empty): it is claimed as the fault-free baseline and oracle validation of the C03 simulation. Sampling, not proof.',
   note='Trusts the reference model as the reading of C02 (popitem may return any present pair; update/|= = sequence of assignments; copy = .copy()). Found and fixed three defects (known_findings.json C02-F1..F3). Sensitivity: 15 hand-written mutants and 7 sub-agent changes (seeded/C02-S*) detected, 6 property-preserving redesigns (OrderedDict ring, decorator locking, ...) left quiet.'),
 'C03': dict(engine='threadsim', category='exploration', design_ref='4.1',
   technique='deterministic simulation of threads: baton-passing real threads pre-empted at every bytecode of cacheutils (sys.monitoring INSTRUCTION events) and at every lock operation, seeded random/PCT/pre-emption-bounded schedules plus a single-pre-emption sweep, linearizability check against a reference cache, schedule re-search + ddmin replay',
   text='2-4 logical threads run seeded programs on one shared LRI/LRU whose lock is a simulated RLock; the simulator alone decides which thread runs at each of ~10^2-10^3 pre-emption points per run. The recorded history (invoke/return stamps from the global step counter, outcomes, probed final contents and eviction order) must be linearizable against models/lru_model.py; impossible exceptions, capacity overflow, deadlock, livelock (step cap) and an unusable cache afterwards are violations too. Floor on every invocation: for every ordered pair of 17 operations, both classes, thread A pre-empted once at each of its yield points with thread B run in between (about 67k schedules). Sampling of schedules, not proof.',
   note='Assumes the GIL (C-level dict operations on int/str/tuple keys atomic); counters are outside the concurrent specification; known finding C03-F1 (lock-free inherited readers see a prefix of one in-flight operation) is classified by an executable relaxed oracle and reported as KNOWN-FINDING, everything else is strict. Oracle unit-tested on 15 hand-written histories (--selftest). Sensitivity: 14 hand-written mutants and 12 sub-agent changes (seeded/C03-S*: unlocked pre-checks, lock swapped by clear(), lazy lock creation, lock-free fast paths, batching, lock leaks ...) detected; 8 property-preserving redesigns left quiet.'),
 'C04': dict(engine='simfs', category='fault_enumeration', design_ref='4.3',
   technique='deterministic simulation with crash injection: in-memory POSIX file system with durability journal under the real AtomicSaver and CPython buffered/text file objects; every crash point of every workload enumerated; process-death and power-loss images judged; ordering oracle on the event log',
   text='For each workload (80 fixed + seeded: text/binary, overwrite, part_file, buffering, buffer size, umask, relative path, destination absent/present, body of write/flush calls) the fault-free run is recorded and the workload is re-executed with the machine stopped immediately before every seam event and after the last. Each snapshot is judged under process death (kernel view) and under power loss (every metadata-journal prefix at or after the last fsync x {no un-synced data, all of it, a seeded subset with a torn tail}): the destination must read exactly the old or exactly the complete new content. Independently the event log must show that a name is bound to the part file only when its kernel data is complete and fsynced, never written afterwards, and that the destination is rebound in exactly one call. Exhaustive over crash points per workload, seeded over workloads.',
   note='Trusts the simfs model of POSIX rename/link/open(O_EXCL) and its power-loss model (metadata durable in issue order, data durable up to last fsync, later writes any subset/torn). Directory fsync is not required. Also enumerated: crash points inside FAILING saves (sampled single faults), saves that start from the crash image of an earlier save, re-used saver objects, a file system without hard links, symlink destinations. simfs is cross-checked against the real kernel in --selftest (about 270 fault-free saves, about 140 forked crash points). Sensitivity: 11 hand-written mutants and 8 sub-agent changes (seeded/C04-S*) detected; benign variants (close after rename, os.replace, directory fsync, replacing the target of a symlink, skip-if-unchanged) left quiet.'),
 'C05': dict(engine='simfs', category='fault_enumeration', design_ref='4.4',
   technique='deterministic simulation with fault injection: errno / short-write / disk-full / second-party faults injected at every applicable seam event of every workload (single faults enumerated, pairs sampled), judged by a post-state oracle incl. an immediate retry',
   text='For each workload (64 fixed + seeded over overwrite, overwrite_part, rm_part_on_exc, text_mode, file_perms, umask, buffering, initial destination and part file, raising bodies) every fault of the alphabet (open EACCES/ENOSPC/EMFILE/EROFS, chmod EPERM, raw write ENOSPC/EIO/EDQUOT/short/persistent disk-full, fsync EIO/ENOSPC, close EIO, rename EACCES/EPERM/ENOSPC/EIO, link EPERM/EMLINK, clean-up unlink EACCES/EIO as a second fault, another process creating the destination or the part file) is injected at every event it applies to; afterwards: destination bytes and mode unchanged unless published, an exception reached the caller, no part file of ours is left with rm_part_on_exc, an immediate fault-free retry succeeds unless legitimately refused, a pre-existing part file is untouched without overwrite_part, completed saves have the specified permissions.',
   note='Fault alphabet = the steps C05 names; stat/lexists/fcntl/fdopen are not faulted. Narrow relaxations tied to the injected fault (clean-up unlink itself faulted; failure after publication on the link path). Found and fixed C05-F1 (known_findings.json). Extra dimensions: re-used saver objects, earlier saves under another umask, bodies raising Exception / BaseException / falsy exceptions, symlink destination and part file, persistent no-hard-link file system. Sensitivity: 18 hand-written mutants and 11 sub-agent changes (seeded/C05-S*) detected; 8 property-preserving redesigns (ExitStack, fchmod, guard context manager ...) left quiet.'),
 'C12': dict(engine='simnet', category='exploration', design_ref='4.5',
   technique='deterministic simulation: scripted stream socket + discrete-event clock, seeded delivery/timeout/partial-send schedules, reference stream model, ddmin replay',
   text='Seeded search over byte streams, their composition into deliveries, timeout placements, kernel recv/send split scripts, recvsize/maxsize settings and call programs, executed against the real BufferedSocket/NetstringSocket over a simulated socket and clock; after every call (including every call that raised) the result is compared with an independent whole-stream model and byte conservation (returned + buffered + undelivered == stream; peer + kernel + send buffer == handed over) is checked; bounded liveness after faults stop. A fixed floor enumerates every composition of four short delimiter-rich streams. Sampling, not proof.',
   note='Trusts the SimSocket contract (never more than asked, b"" only after close, EWOULDBLOCK at timeout 0, send accepts 1..n bytes), sizes >= 1, and the reference model in checks/c12.py; Fault kinds also include transient socket errors, cancellation (BaseException inside recv/send; found and fixed C12-F1), per-call timeout overrides, abandoned calls, slow callers, netstring writer timeouts, bytes-like arguments, scale (64 KiB streams, 16 KiB+ netstrings). Sensitivity: 22 hand-written mutants and 12 sub-agent changes (seeded/C12-S*) detected; 6 property-preserving redesigns (bytearray buffer, deadline helper, memoryview send ...) left quiet.'),

 'C15': dict(engine='simrand', category='exploration', design_ref='4.7',
   technique='deterministic simulation of the PRNG seam: iterutils.random replaced by a scripted source (extreme, tiny and seeded draws), seeded parameter search, exact-rational jitter bounds against a reference loop',
   text='Thin claim. The jitter clause quantifies over draws of the global PRNG; the simulator owns that source and presents 0.0 and 1-2**-53 next to ordinary draws. The other clauses (first value, growth, cap, monotonicity, length, default count reaching stop, ValueError before the first value, list form == generator form) are checked on the same seeded parameter sets biased to exact powers, their floating-point neighbours, start=0 and stop<1; they do not depend on any seam and the evidence labels them as configuration sampling.',
   note='Growth is compared with a 1e-12 relative tolerance, everything else exactly; factor == 1 only with an explicit count. Found and fixed C15-F1 and C15-F2 (known_findings.json). Sensitivity: 9 hand-written mutants and 4 sub-agent changes (seeded/C15-S*) detected; an inclusive-bound mutant, random.uniform and two deep restructurings left quiet.'),
 'C18': dict(engine='simfs', category='exploration', design_ref='4.6',
   technique='deterministic simulation of the rollover/write-back seam: replicas of one seeded history run in lock-step over simulated temporary files (seeded max_size, scheduler-injected rollover()/fileno(), seeded write-back size, READ_CHUNK_SIZE knob) against the io.BytesIO/io.StringIO reference',
   text='Thin claim. The instant at which a spooled object moves to a temporary file and how much of that file sits in a user-space buffer when os.fstat or a later read looks at it are not caller-visible; the simulator owns both (ioutils.TemporaryFile and ioutils.os are rebound to simfs). Each history of appending writes, reads, line reads, iteration, seeks, tell, getvalue and len is applied to up to four replicas and the io reference; every return value and tell() must agree at every step, content and position at the end. MultiFileReader: seeded partitions of a content into io/spooled/rolled members, mixes of read(n)/read()/seek(0) against the concatenation. No faults are injected (none are in C18).',
   note='write() return values are compared between replicas only. Found and fixed C18-F1..F4 (+ follow-up C18-F1b) (known_findings.json). Operations also include writelines (list/tuple/generator), relative seeks, member files handed over at non-zero positions, > READ_CHUNK_SIZE data, thousands of members. Sensitivity: 13 hand-written mutants and 10 sub-agent changes (seeded/C18-S*) detected; 6 property-preserving redesigns left quiet; rollover is observed at the TemporaryFile seam, not through private attributes.'),
}
PENDING = {}

def main():
    checks = []
    for pid in sorted(CHECKS):
        c = CHECKS[pid]
        checks.append({
            'property_id': pid,
            'quick_cmd': './check %s --tier quick' % pid,
            'thorough_cmd': './check %s --tier thorough' % pid,
            'evidence_file': 'evidence/%s.json' % pid,
            'replay_cmd_template': './check %s --replay {path}' % pid,
            'engine': c['engine'],
            'level_claimed': {'category': c['category'], 'text': c['text'], 'design_ref': 'DESIGN.md section ' + c['design_ref']},
            'level_note': c['note'],
            'technique': c['technique'],
        })
    na = [{'property_id': k, 'reason': v} for k, v in sorted(NA.items())]
    na += [{'property_id': k, 'reason': v} for k, v in sorted(PENDING.items())]
    man = {
     'version': 1,
     'setup_cmd': './check --setup',
     'hooks': {'guard': 'BOLTONS_VERIF', 'enable': 'no source hooks exist: every seam is an existing module global or constructor argument that the check process rebinds after importing boltons from /repo (DESIGN.md section 1); BOLTONS_VERIF is read by no source line',
               'baseline_off_cmd': BASELINE_OFF, 'source_commits': [], 'add_only': True},
     'engines': [
       {'name': 'simnet', 'path': 'engines/simnet.py', 'serves_properties': ['C12'], 'kind_free_text': 'scripted stream socket on a discrete-event clock (deliveries, gaps, close, partial sends, finite kernel buffer)'},
       {'name': 'threadsim', 'path': 'engines/threadsim.py', 'serves_properties': ['C02', 'C03'], 'kind_free_text': 'baton-passing real threads pre-empted at every bytecode of cacheutils (sys.settrace opcode events), simulated RLock, seeded/PCT/pre-emption-bounded schedulers'},
       {'name': 'simfs', 'path': 'engines/simfs.py', 'serves_properties': ['C04', 'C05', 'C18'], 'kind_free_text': 'in-memory POSIX subset with durability journal, crash snapshots (process death and power loss), errno/short-write/second-party fault injection'},
       {'name': 'simrand', 'path': 'engines/simrand.py', 'serves_properties': ['C15'], 'kind_free_text': 'scripted replacement for the global PRNG'},
     ],
     'checks': checks,
     'not_applicable': na,
     'notes': 'Technique family: deterministic simulation with fault injection. 7 properties are claimed, 13 are not applicable (DESIGN.md sections 0 and 5). Exit codes: 0 held (open known findings printed as KNOWN-FINDING), 1 VIOLATION (with replay file), 2 harness error (never prints VIOLATION). 17 fix: commits in /repo repair the genuine defects the checks found (known_findings.json); one open finding, C03-F1. Regression suites: tools/mutants_all.sh, tools/seeded_all.sh (267 sub-agent breaking changes), tools/benign_all.sh (65 property-preserving refactors), tools/soak.sh.',
    }
    with open(os.path.join(HERE, 'MANIFEST.json'), 'w') as fh:
        json.dump(man, fh, indent=1)
        fh.write('\n')

if __name__ == '__main__':
    main()
