#!/venv/bin/python
"""False-alarm regression: apply a property-PRESERVING change (benign/<id>/patch.diff) to a scratch
worktree of /repo under /tmp, run the pinned suite and the quick checks named in meta.json against it;
every check must exit 0 (no VIOLATION, no harness error).  The worktree is removed afterwards.

usage: tools/benign.py benign/<id> [--budget S]
"""
import argparse, json, os, shutil, subprocess, sys, tempfile, time
HERE = os.path.dirname(os.path.dirname(os.path.abspath(__file__)))


def sh(cmd, **kw):
    return subprocess.run(cmd, capture_output=True, text=True, **kw)


def main():
    ap = argparse.ArgumentParser()
    ap.add_argument('dir')
    ap.add_argument('--budget', default='8')
    ap.add_argument('--no-tests', action='store_true')
    args = ap.parse_args()
    d = os.path.abspath(args.dir)
    meta = json.load(open(os.path.join(d, 'meta.json')))
    scratch = tempfile.mkdtemp(prefix='benign-scratch-')
    shutil.rmtree(scratch)
    subprocess.run(['git', '-C', '/repo', 'worktree', 'add', '-q', '--detach', scratch, 'HEAD'], check=True)
    res = {'id': meta['id']}
    try:
        a = sh(['git', '-C', scratch, 'apply', os.path.join(d, 'patch.diff')])
        if a.returncode:
            print('patch does not apply:', a.stderr)
            return 2
        if not args.no_tests:
            t = sh(['timeout', '-k', '5', '900', '/venv/bin/python', '-B', '-m', 'pytest', '-q', '-p', 'no:cacheprovider',
                    '--timeout=120', 'tests'], cwd=scratch, env=dict(os.environ, PYTHONDONTWRITEBYTECODE='1'))
            res['suite'] = t.stdout.strip().splitlines()[-1] if t.stdout.strip() else t.stderr[-200:]
        tmp = tempfile.mkdtemp(prefix='benign-run-')
        for p in meta['properties']:
            env = dict(os.environ, VERIF_OUT_DIR=os.path.join(tmp, 'out'), VERIF_EVIDENCE_DIR=os.path.join(tmp, 'evidence'),
                       VERIF_BUDGET_S=args.budget)
            t0 = time.time()
            c = sh(['timeout', '-k', '5', '1800', os.path.join(HERE, 'check'), p, '--tier', 'quick', '--root', scratch], env=env)
            lines = [l for l in c.stdout.splitlines() if l.startswith(('violation class=', 'HARNESS'))]
            res['check_' + p] = {'exit': c.returncode, 'wall_s': round(time.time() - t0, 1), 'lines': [l[:500] for l in lines[:4]]}
            if c.returncode == 2:
                res['check_' + p]['tail'] = (c.stdout + c.stderr)[-1500:]
        shutil.rmtree(tmp, ignore_errors=True)
    finally:
        subprocess.run(['git', '-C', '/repo', 'worktree', 'remove', '--force', scratch])
    print(json.dumps(res, indent=1))
    return 0 if all(v['exit'] == 0 for k, v in res.items() if k.startswith('check_')) else 1


if __name__ == '__main__':
    sys.exit(main())
