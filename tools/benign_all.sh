#!/bin/sh
# False-alarm regression: every kept property-preserving refactor must leave every check quiet.
cd "$(dirname "$0")/.." || exit 2
rc=0
lane=${2:-0}; nlanes=${3:-1}; i=0      # optional: tools/benign_all.sh <budget> <lane> <nlanes>
for d in benign/*/; do
  i=$((i+1)); [ $((i % nlanes)) -eq "$lane" ] || continue
  id=$(basename "$d")
  out=$(timeout 3000 /venv/bin/python tools/benign.py "benign/$id" --budget "${1:-8}" 2>/dev/null) || rc=1
  printf '%s' "$out" | /venv/bin/python -c "
import json,sys
r=json.load(sys.stdin)
print(r['id'], '| suite:', r.get('suite'), '|', ' '.join('%s exit=%s' % (k[6:], v['exit']) for k,v in r.items() if k.startswith('check_')))"
done
exit $rc
