#!/venv/bin/python
"""Run the checks against a kept seeded change.

usage: tools/seeded.py seeded/<id> [--tier quick] [--budget S] [--no-tests]

Applies seeded/<id>/patch.diff to /repo (git apply), runs the pinned suite, the
demonstration (must exit 1), and the quick check(s) of the property it breaks (must exit
1 with a VIOLATION line), and ALWAYS undoes the change (git checkout -- .) before
returning; then runs the demonstration again (must exit 0).  Evidence and replay files of
these runs go to a temporary directory, never to /verif/evidence.
"""
import argparse
import json
import os
import shutil
import subprocess
import sys
import tempfile
import time

HERE = os.path.dirname(os.path.dirname(os.path.abspath(__file__)))
REPO = '/repo'


def sh(cmd, **kw):
    return subprocess.run(cmd, capture_output=True, text=True, **kw)


def main():
    ap = argparse.ArgumentParser()
    ap.add_argument('dir')
    ap.add_argument('--tier', default='quick')
    ap.add_argument('--budget', default=None)
    ap.add_argument('--no-tests', action='store_true')
    ap.add_argument('--props', default=None, help='comma list; default: meta.json property')
    ap.add_argument('--record', action='store_true', help='rewrite meta.json even when run on a scratch copy')
    ap.add_argument('--scratch', action='store_true', help='apply to a scratch copy of /repo under /tmp instead of /repo itself')
    args = ap.parse_args()
    d = os.path.abspath(args.dir)
    meta = json.load(open(os.path.join(d, 'meta.json')))
    props = (args.props.split(',') if args.props else (meta.get('caught_by') or [meta['property']]))
    global REPO
    scratch = None
    if args.scratch:
        scratch = tempfile.mkdtemp(prefix='seeded-scratch-')
        shutil.rmtree(scratch)
        subprocess.run(['git', '-C', '/repo', 'worktree', 'add', '-q', '--detach', scratch, 'HEAD'], check=True)
        REPO = scratch
    if sh(['git', '-C', REPO, 'status', '--porcelain']).stdout.strip():
        print('refusing: %s has uncommitted changes' % REPO)
        return 2
    res = {'id': os.path.basename(d), 'property': meta['property']}
    tmp = tempfile.mkdtemp(prefix='seeded-run-')
    try:
        a = sh(['git', '-C', REPO, 'apply', os.path.join(d, 'patch.diff')])
        if a.returncode != 0:
            print('patch does not apply:', a.stderr)
            return 2
        try:
            if not args.no_tests:
                t = sh(['timeout', '-k', '5', '900', '/venv/bin/python', '-B', '-m', 'pytest', '-q', '-p', 'no:cacheprovider',
                        '--timeout=120', 'tests'], cwd=REPO, env=dict(os.environ, PYTHONDONTWRITEBYTECODE='1'))
                res['suite'] = t.stdout.strip().splitlines()[-1] if t.stdout.strip() else t.stderr[-200:]
            dm = sh(['timeout', '-k', '5', '300', '/venv/bin/python', '-B', os.path.join(d, 'demo.py')],
                    env=dict(os.environ, BOLTONS_ROOT=REPO, PYTHONDONTWRITEBYTECODE='1'))
            res['demo_with_patch'] = dm.returncode
            for p in props:
                env = dict(os.environ, VERIF_OUT_DIR=os.path.join(tmp, 'out'),
                           VERIF_EVIDENCE_DIR=os.path.join(tmp, 'evidence'))
                if args.budget:
                    env['VERIF_BUDGET_S'] = args.budget
                t0 = time.time()
                c = sh(['timeout', '-k', '5', '1800', os.path.join(HERE, 'check'), p, '--tier', args.tier, '--root', REPO], env=env)
                viol = [l for l in c.stdout.splitlines() if l.startswith('VIOLATION')]
                cls = sorted(set(l.split()[1] for l in c.stdout.splitlines() if l.startswith('violation class=')))
                first = [l for l in c.stdout.splitlines() if l.startswith('violation class=')][:1]
                res['check_' + p] = {'exit': c.returncode, 'violation_lines': len(viol), 'classes': cls,
                                     'first': first[0][:400] if first else None, 'wall_s': round(time.time() - t0, 1)}
                if c.returncode == 2:
                    res['check_' + p]['tail'] = (c.stdout + c.stderr)[-600:]
        finally:
            sh(['git', '-C', REPO, 'checkout', '--', '.'])
        dm = sh(['timeout', '-k', '5', '300', '/venv/bin/python', '-B', os.path.join(d, 'demo.py')],
                env=dict(os.environ, BOLTONS_ROOT=REPO, PYTHONDONTWRITEBYTECODE='1'))
        res['demo_without_patch'] = dm.returncode
        res['repo_clean_after'] = not sh(['git', '-C', REPO, 'status', '--porcelain']).stdout.strip()
    finally:
        shutil.rmtree(tmp, ignore_errors=True)
        if scratch:
            subprocess.run(['git', '-C', '/repo', 'worktree', 'remove', '--force', scratch])
    print(json.dumps(res, indent=1))
    if scratch and meta.get('result') and not args.record:
        return 0 if all(res.get('check_' + p, {}).get('exit') == 1 for p in props) else 1
    where = '/repo' if not scratch else '<scratch worktree of /repo at HEAD>'
    meta['what_i_ran'] = ['git -C %s apply seeded/%s/patch.diff' % (where, res['id']),
                          'cd /repo && /venv/bin/python -m pytest -q -p no:cacheprovider --timeout=120 tests',
                          '/venv/bin/python seeded/%s/demo.py   (exit 1 expected with the patch)' % res['id']] + \
                         ['./check %s --tier %s   (exit 1 + VIOLATION expected)' % (p, args.tier) for p in props] + \
                         ['git -C %s checkout -- .' % where, '/venv/bin/python seeded/%s/demo.py   (exit 0 expected without it)' % res['id']]
    meta['result'] = res
    meta['caught_by'] = [p for p in props if res.get('check_' + p, {}).get('exit') == 1]
    json.dump(meta, open(os.path.join(d, 'meta.json'), 'w'), indent=1)
    caught = all(res.get('check_' + p, {}).get('exit') == 1 for p in props)
    return 0 if caught else 1


if __name__ == '__main__':
    sys.exit(main())
