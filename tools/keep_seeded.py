#!/usr/bin/env python3
"""Copy a sub-agent's change (patchN.diff + demoN.py in its scratch worktree) into
/verif/seeded/<id>/ with the worktree path in the demo replaced by $BOLTONS_ROOT (/repo).

usage: tools/keep_seeded.py <worktree> <N> <property> <id> <needs...>
"""
import json, os, re, sys
wt, n, prop, sid = sys.argv[1:5]
needs = ' '.join(sys.argv[5:])
HERE = os.path.dirname(os.path.dirname(os.path.abspath(__file__)))
d = os.path.join(HERE, 'seeded', sid)
os.makedirs(d, exist_ok=True)
patch = open(os.path.join(wt, 'patch%s.diff' % n)).read()
open(os.path.join(d, 'patch.diff'), 'w').write(patch)
demo = open(os.path.join(wt, 'demo%s.py' % n)).read()
demo = demo.replace(repr(wt), "__import__('os').environ.get('BOLTONS_ROOT', '/repo')")
demo = demo.replace('"%s"' % wt, "__import__('os').environ.get('BOLTONS_ROOT', '/repo')")
demo = demo.replace(wt, '/repo')
demo = re.sub(r"startswith\((['\"])/repo/?\1\)", "startswith(__import__('os').environ.get('BOLTONS_ROOT', '/repo'))", demo)
open(os.path.join(d, 'demo.py'), 'w').write(demo)
files = sorted(set(re.findall(r'^\+\+\+ b/(\S+)', patch, re.M)))
meta = {'id': sid, 'property': prop, 'files': files, 'needs_to_manifest': needs,
        'origin': 'independent sub-agent given only the property text and a scratch worktree',
        'what_i_ran': None}
json.dump(meta, open(os.path.join(d, 'meta.json'), 'w'), indent=1)
print(d, files)
