"""Seeded mutants per property: name -> ([(file, old, new), ...], 'detect' | 'benign').

Each mutant compiles and (checked with --tests) passes the pinned suite."""
SU = 'boltons/socketutils.py'
MUTANTS = {}

MUTANTS['C12'] = {
    'rolling-offset-plus-one': ([(SU, 'find_offset_start = -len(nxt) - len_delimiter + 1',
                                  'find_offset_start = -len(nxt) - len_delimiter + 2')], 'detect'),
    'rolling-offset-no-overlap': ([(SU, 'find_offset_start = -len(nxt) - len_delimiter + 1',
                                    'find_offset_start = -len(nxt)')], 'detect'),
    'recv_size-ge-to-gt': ([(SU, '                    if total_bytes >= size:\n                        break',
                             '                    if total_bytes > size:\n                        break')], 'detect'),
    'recv_until-timeout-drops-buffer': ([(SU, """            except socket.timeout:
                self.rbuf = bytes(recvd)
                msg = ('read %s bytes without finding delimiter: %r'""",
                                          """            except socket.timeout:
                msg = ('read %s bytes without finding delimiter: %r'""")], 'detect'),
    'peek-requeue-order': ([(SU, '            self.rbuf = data + self.rbuf\n        return data',
                             '            self.rbuf = self.rbuf + data\n        return data')], 'detect'),
    'recv-split-off-by-one': ([(SU, '                data, self.rbuf = data[:size], data[size:]\n        return data',
                                '                data, self.rbuf = data[:size], data[size + 1:]\n        return data')], 'detect'),
    'send-no-trim': ([(SU, '                    sbuf[0] = sbuf[0][sent:]', '                    sbuf[0] = sbuf[0][sent:] if sent < len(sbuf[0]) else b\'\'')], 'benign'),
    'send-dup-on-partial': ([(SU, '                    sbuf[0] = sbuf[0][sent:]',
                              '                    sbuf[0] = sbuf[0][sent - 1:] if 1 < sent < len(sbuf[0]) else sbuf[0][sent:]')], 'detect'),
    'send-never-trims-hang': ([(SU, '                    sbuf[0] = sbuf[0][sent:]',
                                '                    sbuf[0] = sbuf[0][sent:] if sent > 1 else sbuf[0]')], 'detect'),
    'send-clears-on-timeout': ([(SU, "            except socket.timeout:\n                raise Timeout(timeout, '%s bytes unsent' % len(sbuf[0]))",
                                 "            except socket.timeout:\n                unsent = len(sbuf[0])\n                sbuf[:] = []\n                raise Timeout(timeout, '%s bytes unsent' % unsent)")], 'detect'),
    'recv_close-drops-rbuf': ([(SU, '                self.rbuf = recvd + self.rbuf\n                size_read',
                                '                self.rbuf = recvd\n                size_read')], 'detect'),
    'recv_until-find-unbounded': ([(SU, 'offset = recvd.find(delimiter, find_offset_start, maxsize)',
                                    'offset = recvd.find(delimiter, find_offset_start)')], 'detect'),
    'netstring-size-off-by-one': ([(SU, '        payload = self.bsock.recv_size(size)\n        if self.bsock.recv(1)',
                                    '        payload = self.bsock.recv_size(size) if size != 11 else self.bsock.recv_size(size + 1)[:-1]\n        if self.bsock.recv(1)')], 'detect'),
    'recv_until-toolong-ge': ([(SU, '                    elif len(recvd) > maxsize:', '                    elif len(recvd) >= maxsize:')], 'detect'),
    'recv_size-timeout-drops-last-chunk': ([(SU, """            except socket.timeout:
                self.rbuf = b''.join(chunks)
                msg = f'read {total_bytes} of {size} bytes'""", """            except socket.timeout:
                self.rbuf = b''.join(chunks[:-1]) if len(chunks) > 2 else b''.join(chunks)
                msg = f'read {total_bytes} of {size} bytes'""")], 'detect'),
    'recv_size-generic-exc-drops-buffer': ([(SU, """            except Exception:
                # received data is still buffered in the case of errors
                self.rbuf = b''.join(chunks)
                raise""", """            except ConnectionClosed:
                # received data is still buffered in the case of errors
                self.rbuf = b''.join(chunks)
                raise""")], 'detect'),
    'netstring-msgsize-maxsize-short': ([(SU, "        self._msgsize_maxsize = len(str(maxsize)) + 1  # len(str()) == log10\n\n    def fileno",
                                          "        self._msgsize_maxsize = len(str(maxsize))  # len(str()) == log10\n\n    def fileno")], 'detect'),
}
