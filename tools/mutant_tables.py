"""Seeded mutants per property: name -> ([(file, old, new), ...], 'detect' | 'benign').

Each mutant compiles and (checked with --tests) passes the pinned suite."""
SU = 'boltons/socketutils.py'
MUTANTS = {}

MUTANTS['C12'] = {
    'rolling-offset-plus-one': ([(SU, 'find_offset_start = -len(nxt) - len_delimiter + 1',
                                  'find_offset_start = -len(nxt) - len_delimiter + 2')], 'detect'),
    'rolling-offset-no-overlap': ([(SU, 'find_offset_start = -len(nxt) - len_delimiter + 1',
                                    'find_offset_start = -len(nxt)')], 'detect'),
    'recv_size-ge-to-gt': ([(SU, '                    if total_bytes >= size:\n                        break',
                             '                    if total_bytes > size:\n                        break')], 'detect'),
    'recv_until-timeout-drops-buffer': ([(SU, """            except socket.timeout:
                self.rbuf = bytes(recvd)
                msg = ('read %s bytes without finding delimiter: %r'""",
                                          """            except socket.timeout:
                msg = ('read %s bytes without finding delimiter: %r'""")], 'detect'),
    'peek-requeue-order': ([(SU, '            self.rbuf = data + self.rbuf\n        return data',
                             '            self.rbuf = self.rbuf + data\n        return data')], 'detect'),
    'recv-split-off-by-one': ([(SU, '                data, self.rbuf = data[:size], data[size:]\n        return data',
                                '                data, self.rbuf = data[:size], data[size + 1:]\n        return data')], 'detect'),
    'send-no-trim': ([(SU, '                    sbuf[0] = sbuf[0][sent:]', '                    sbuf[0] = sbuf[0][sent:] if sent < len(sbuf[0]) else b\'\'')], 'benign'),
    'send-dup-on-partial': ([(SU, '                    sbuf[0] = sbuf[0][sent:]',
                              '                    sbuf[0] = sbuf[0][sent - 1:] if 1 < sent < len(sbuf[0]) else sbuf[0][sent:]')], 'detect'),
    'send-never-trims-hang': ([(SU, '                    sbuf[0] = sbuf[0][sent:]',
                                '                    sbuf[0] = sbuf[0][sent:] if sent > 1 else sbuf[0]')], 'detect'),
    'send-clears-on-timeout': ([(SU, "            except socket.timeout:\n                raise Timeout(timeout, '%s bytes unsent' % len(sbuf[0]))",
                                 "            except socket.timeout:\n                unsent = len(sbuf[0])\n                sbuf[:] = []\n                raise Timeout(timeout, '%s bytes unsent' % unsent)")], 'detect'),
    'recv_close-drops-rbuf': ([(SU, '                self.rbuf = recvd + self.rbuf\n                size_read',
                                '                self.rbuf = recvd\n                size_read')], 'detect'),
    'recv_until-find-unbounded': ([(SU, 'offset = recvd.find(delimiter, find_offset_start, maxsize)',
                                    'offset = recvd.find(delimiter, find_offset_start)')], 'detect'),
    'netstring-size-off-by-one': ([(SU, '        payload = self.bsock.recv_size(size)\n        if self.bsock.recv(1)',
                                    '        payload = self.bsock.recv_size(size) if size != 11 else self.bsock.recv_size(size + 1)[:-1]\n        if self.bsock.recv(1)')], 'detect'),
    'recv_until-toolong-ge': ([(SU, '                    elif len(recvd) > maxsize:', '                    elif len(recvd) >= maxsize:')], 'detect'),
    'recv_size-timeout-drops-last-chunk': ([(SU, """            except socket.timeout:
                self.rbuf = b''.join(chunks)
                msg = f'read {total_bytes} of {size} bytes'""", """            except socket.timeout:
                self.rbuf = b''.join(chunks[:-1]) if len(chunks) > 2 else b''.join(chunks)
                msg = f'read {total_bytes} of {size} bytes'""")], 'detect'),
    'recv_size-generic-exc-drops-buffer': ([(SU, """            except BaseException:
                # received data is still buffered in the case of errors
                # (incl. KeyboardInterrupt, gevent.Timeout, etc.)
                self.rbuf = b''.join(chunks)
                raise""", """            except ConnectionClosed:
                # received data is still buffered in the case of errors
                # (incl. KeyboardInterrupt, gevent.Timeout, etc.)
                self.rbuf = b''.join(chunks)
                raise""")], 'detect'),
    'netstring-msgsize-maxsize-short': ([(SU, "        self._msgsize_maxsize = len(str(maxsize)) + 1  # len(str()) == log10\n\n    def fileno",
                                          "        self._msgsize_maxsize = len(str(maxsize))  # len(str()) == log10\n\n    def fileno")], 'detect'),
}

CU = 'boltons/cacheutils.py'
MUTANTS['C02'] = {
    'evict-newest': ([(CU, """        self._anchor = anchor = oldanchor[NEXT]
        evicted = anchor[KEY]""", """        self._anchor = anchor = oldanchor[PREV][PREV] if oldanchor[PREV][PREV] is not oldanchor else oldanchor[NEXT]
        evicted = anchor[KEY]""")], 'detect'),
    'lri-getitem-moves-to-front': ([(CU, """            try:
                link = self._link_lookup[key]
            except KeyError:
                self.miss_count += 1
                if not self.on_miss:
                    raise
                ret = self[key] = self.on_miss(key)
                return ret

            self.hit_count += 1
            return link[VALUE]

    def get(""", """            try:
                link = self._get_link_and_move_to_front_of_ll(key)
            except KeyError:
                self.miss_count += 1
                if not self.on_miss:
                    raise
                ret = self[key] = self.on_miss(key)
                return ret

            self.hit_count += 1
            return link[VALUE]

    def get(""")], 'detect'),
    'capacity-lt-to-le': ([(CU, 'if len(self) < self.max_size:', 'if len(self) <= self.max_size:')], 'detect'),
    'setdefault-no-softmiss': ([(CU, """            except KeyError:
                self.soft_miss_count += 1
                self[key] = default
                return default""", """            except KeyError:
                self[key] = default
                return default""")], 'detect'),
    'pop-forgets-ring': ([(CU, """            else:
                self._remove_from_ll(key)
            return ret""", """            else:
                pass
            return ret""")], 'detect'),
    'update-dict-update': ([(CU, """            if callable(getattr(E, 'keys', None)):
                for k in E.keys():
                    setitem(k, E[k])""", """            if callable(getattr(E, 'keys', None)):
                if len(self) + len(E) <= self.max_size and not any(k in self for k in E):
                    for k in E.keys():
                        setitem(k, E[k])
                else:
                    for k in reversed(list(E.keys())):
                        setitem(k, E[k])""")], 'detect'),
    'copy-drops-max_size': ([(CU, 'return self.__class__(max_size=self.max_size, values=items)',
                              'return self.__class__(values=items)')], 'detect'),
    'clear-keeps-ring': ([(CU, """            super().clear()
            self._init_ll()""", """            super().clear()""")], 'detect'),
    'lru-get-no-refresh': ([(CU, """    def __getitem__(self, key):
        with self._lock:
            try:
                link = self._get_link_and_move_to_front_of_ll(key)
            except KeyError:
                self.miss_count += 1""", """    def __getitem__(self, key):
        with self._lock:
            try:
                link = self._link_lookup[key] if self.hit_count % 7 == 6 else self._get_link_and_move_to_front_of_ll(key)
            except KeyError:
                self.miss_count += 1""")], 'detect'),
    'setitem-existing-no-move': ([(CU, """            try:
                link = self._get_link_and_move_to_front_of_ll(key)
            except KeyError:
                if len(self) < self.max_size:""", """            try:
                link = self._link_lookup[key]
            except KeyError:
                if len(self) < self.max_size:""")], 'detect'),
    'get-softmiss-double': ([(CU, """        except KeyError:
            self.soft_miss_count += 1
            return default""", """        except KeyError:
            self.soft_miss_count += 1 if default is None else 2
            return default""")], 'detect'),
    'on-miss-not-cached-when-full': ([(CU, """                ret = self[key] = self.on_miss(key)
                return ret

            self.hit_count += 1
            return link[VALUE]

    def get(""", """                ret = self.on_miss(key)
                if len(self) < self.max_size or self.max_size < 3:
                    self[key] = ret
                return ret

            self.hit_count += 1
            return link[VALUE]

    def get(""")], 'detect'),
    'copy-reverses-order': ([(CU, "return self.__class__(max_size=self.max_size, values=items)",
                              "return self.__class__(max_size=self.max_size, values=items[::-1] if len(items) > 2 else items)")], 'detect'),
    'ior-returns-copy': ([(CU, """        self.update(other)
        return self
""", """        self.update(other)
        return self if len(self) < self.max_size else self.copy()
""")], 'detect'),
}

_NOLOCK = (CU, "PREV, NEXT, KEY, VALUE = range(4)   # names for the link fields",
           """PREV, NEXT, KEY, VALUE = range(4)   # names for the link fields


class _NoLock:
    def __enter__(self):
        return self

    def __exit__(self, *a):
        return False


_NOLOCK = _NoLock()""")


def _unlock(defline, n=1):
    return [_NOLOCK, (CU, defline + "\n        with self._lock:", defline + "\n        with _NOLOCK:")]


MUTANTS['C03'] = {
    'nolock-setitem': (_unlock("    def __setitem__(self, key, value):"), 'detect'),
    'nolock-lri-getitem': ([_NOLOCK, (CU, """    def __getitem__(self, key):
        with self._lock:
            try:
                link = self._link_lookup[key]""", """    def __getitem__(self, key):
        with _NOLOCK:
            try:
                link = self._link_lookup[key]""")], 'detect'),
    'nolock-lru-getitem': ([_NOLOCK, (CU, """    def __getitem__(self, key):
        with self._lock:
            try:
                link = self._get_link_and_move_to_front_of_ll(key)""", """    def __getitem__(self, key):
        with _NOLOCK:
            try:
                link = self._get_link_and_move_to_front_of_ll(key)""")], 'detect'),
    'nolock-delitem': (_unlock("    def __delitem__(self, key):"), 'detect'),
    'nolock-pop': ([_NOLOCK, (CU, """        # NB: hit/miss counts are bypassed for pop()
        with self._lock:""", """        # NB: hit/miss counts are bypassed for pop()
        with _NOLOCK:""")], 'detect'),
    'nolock-popitem': (_unlock("    def popitem(self):"), 'detect'),
    'nolock-clear': (_unlock("    def clear(self):"), 'detect'),
    'nolock-setdefault': (_unlock("    def setdefault(self, key, default=None):"), 'detect'),
    'nolock-update': ([_NOLOCK, (CU, """        with self._lock:
            if E is self:""", """        with _NOLOCK:
            if E is self:""")], 'detect'),
    'update-source-snapshot-without-its-lock': ([_NOLOCK, (CU, """            with E._lock:
                E = list(dict.items(E))""", """            with _NOLOCK:
                E = list(dict.items(E))""")], 'detect'),
    'update-reads-source-under-own-lock': ([(CU, """            with E._lock:
                E = list(dict.items(E))
""", """            pass
""")], 'detect'),
    'nolock-copy': ([_NOLOCK, (CU, """        # counts nor the ordering of this cache are disturbed
        with self._lock:""", """        # counts nor the ordering of this cache are disturbed
        with _NOLOCK:""")], 'detect'),
    'narrow-critical-section-setitem': ([(CU, """            else:
                link[VALUE] = value
            super().__setitem__(key, value)
        return""", """            else:
                link[VALUE] = value
        super().__setitem__(key, value)
        return""")], 'detect'),
    'non-reentrant-lock': ([(CU, """try:
    from threading import RLock
except Exception:""", """try:
    from threading import Lock as RLock
except Exception:""")], 'detect'),
    'pop-release-before-ring': ([(CU, """            try:
                ret = super().pop(key)
            except KeyError:
                if default is _MISSING:
                    raise
                ret = default
            else:
                self._remove_from_ll(key)
            return ret""", """            try:
                ret = super().pop(key)
            except KeyError:
                if default is _MISSING:
                    raise
                return default
        with self._lock:
            self._remove_from_ll(key)
        return ret""")], 'detect'),
    'per-call-lock': ([(CU, "    def __setitem__(self, key, value):\n        with self._lock:", "    def __setitem__(self, key, value):\n        with RLock():")], 'detect'),
}

FU = 'boltons/fileutils.py'
_EXIT_CORE = """                self.part_file.flush()
                os.fsync(self.part_file.fileno())
                self.part_file.close()
"""
_RENAME = """        try:
            atomic_rename(self.part_path, self.dest_path,
                          overwrite=self.overwrite)
        except OSError:"""
MUTANTS['C04'] = {
    'drop-fsync': ([(FU, _EXIT_CORE, """                self.part_file.flush()
                self.part_file.close()
""")], 'detect'),
    'drop-flush': ([(FU, _EXIT_CORE, """                os.fsync(self.part_file.fileno())
                self.part_file.close()
""")], 'detect'),
    'fsync-before-flush': ([(FU, _EXIT_CORE, """                os.fsync(self.part_file.fileno())
                self.part_file.flush()
                self.part_file.close()
""")], 'detect'),
    'rename-before-flush': ([(FU, _RENAME, """        try:
            pass
        except OSError:"""), (FU, _EXIT_CORE, """                if not exc_type:
                    atomic_rename(self.part_path, self.dest_path,
                                  overwrite=self.overwrite)
                self.part_file.flush()
                os.fsync(self.part_file.fileno())
                self.part_file.close()
""")], 'detect'),
    'open-dest-directly': ([(FU, "        fd = os.open(self.part_path, self.open_flags, file_perms)",
                             "        fd = os.open(self.dest_path if self.overwrite else self.part_path, (self.open_flags & ~os.O_EXCL) if self.overwrite else self.open_flags, file_perms)"),
                            (FU, _RENAME, """        try:
            if not self.overwrite:
                atomic_rename(self.part_path, self.dest_path,
                              overwrite=self.overwrite)
        except OSError:""")], 'detect'),
    'unlink-dest-then-rename': ([(FU, """        if overwrite:
            os.rename(src, dst)
        else:
            os.link(src, dst)
            os.unlink(src)
        return


_atomic_rename""", """        if overwrite:
            try:
                os.unlink(dst)
            except OSError:
                pass
            os.rename(src, dst)
        else:
            os.link(src, dst)
            os.unlink(src)
        return


_atomic_rename""")], 'detect'),
    'close-after-rename': ([(FU, _EXIT_CORE, """                self.part_file.flush()
                os.fsync(self.part_file.fileno())
"""), (FU, """            raise  # could not save destination file
        return""", """            raise  # could not save destination file
        finally:
            self.part_file.close()
        return""")], 'benign'),
    'fsync-only-large': ([(FU, _EXIT_CORE, """                self.part_file.flush()
                if self.part_file.tell() > 16:
                    os.fsync(self.part_file.fileno())
                self.part_file.close()
""")], 'detect'),
    'fsync-skipped-when-dest-absent': ([(FU, _EXIT_CORE, """                self.part_file.flush()
                if self.overwrite:
                    os.fsync(self.part_file.fileno())
                self.part_file.close()
""")], 'detect'),
    'link-path-copies': ([(FU, """            os.link(src, dst)
            os.unlink(src)""", """            fd = os.open(dst, os.O_WRONLY | os.O_CREAT | os.O_EXCL, 0o666)
            with os.fdopen(fd, 'wb') as out, open(src, 'rb') as inp:
                out.write(inp.read())
            os.unlink(src)""")], 'detect'),
}

MUTANTS['C05'] = {
    'swallow-rename-error': ([(FU, """                except Exception:
                    pass  # avoid masking original error
            raise  # could not save destination file""", """                except Exception:
                    pass  # avoid masking original error
            return  # could not save destination file""")], 'detect'),
    'skip-cleanup-on-body-exception': ([(FU, """        if exc_type:
            if self.rm_part_on_exc:
                try:
                    os.unlink(self.part_path)
                except Exception:
                    pass  # avoid masking original error
            return""", """        if exc_type:
            return""")], 'detect'),
    'ignore-rm_part_on_exc': ([(FU, """        if exc_type:
            if self.rm_part_on_exc:
                try:""", """        if exc_type:
            if True:
                try:""")], 'benign'),
    'no-early-refusal-and-rename': ([(FU, """            if not self.overwrite:
                raise OSError(errno.EEXIST,
                              'Overwrite disabled and file already exists',
                              self.dest_path)""", """            if not self.overwrite:
                pass"""), (FU, """        else:
            os.link(src, dst)
            os.unlink(src)
        return


_atomic_rename""", """        else:
            os.rename(src, dst)
        return


_atomic_rename""")], 'detect'),
    'drop-O_EXCL': ([(FU, "_TEXT_OPENFLAGS = os.O_RDWR | os.O_CREAT | os.O_EXCL", "_TEXT_OPENFLAGS = os.O_RDWR | os.O_CREAT")], 'detect'),
    'swap-permission-precedence': ([(FU, """        file_perms = self.file_perms
        if file_perms is None:
            try:""", """        file_perms = self.file_perms
        if True:
            try:""")], 'detect'),
    'skip-chmod': ([(FU, "        if do_chmod:\n            try:\n                os.chmod(self.part_path, file_perms)", "        if do_chmod and self.file_perms is None:\n            try:\n                os.chmod(self.part_path, file_perms)")], 'detect'),
    'unlink-dest-on-failure': ([(FU, """        if exc_type:
            if self.rm_part_on_exc:
                try:
                    os.unlink(self.part_path)""", """        if exc_type:
            if self.rm_part_on_exc:
                try:
                    if not self.overwrite:
                        os.unlink(self.dest_path)
                    os.unlink(self.part_path)""")], 'detect'),
    'fsync-failure-no-cleanup': ([(FU, """                self.part_file.flush()
                os.fsync(self.part_file.fileno())
                self.part_file.close()
            except Exception:""", """                self.part_file.flush()
                try:
                    os.fsync(self.part_file.fileno())
                except OSError:
                    self.part_file.close()
                    raise
                self.part_file.close()
            except ValueError:""")], 'detect'),
    'fsync-error-swallowed': ([(FU, "                os.fsync(self.part_file.fileno())\n                self.part_file.close()\n            except Exception:", "                try:\n                    os.fsync(self.part_file.fileno())\n                except OSError:\n                    pass\n                self.part_file.close()\n            except Exception:")], 'detect'),
    'overwrite_part-always': ([(FU, "        if self.overwrite_part and os.path.lexists(self.part_path):", "        if os.path.lexists(self.part_path):")], 'detect'),
    'cleanup-only-when-dest-absent': ([(FU, """        except OSError:
            if self.rm_part_on_exc:
                try:
                    os.unlink(self.part_path)
                except Exception:
                    pass  # avoid masking original error
            raise  # could not save destination file""", """        except OSError as e:
            if self.rm_part_on_exc and e.errno != errno.EEXIST:
                try:
                    os.unlink(self.part_path)
                except Exception:
                    pass  # avoid masking original error
            raise  # could not save destination file""")], 'detect'),
    'umask-ignored': ([(FU, "                do_chmod = False  # respect the umask", "                do_chmod = True  # respect the umask")], 'detect'),
}

IT = 'boltons/iterutils.py'
MUTANTS['C15'] = {
    'cap-removed': ([(IT, "        if cur > stop:\n            cur = stop\n    return", "        if cur > stop * factor:\n            cur = stop\n    return")], 'detect'),
    'jitter-sign-flipped': ([(IT, "cur_ret = cur - (cur * jitter * random.random())", "cur_ret = cur + (cur * jitter * random.random())")], 'detect'),
    'jitter-applied-to-cur': ([(IT, "cur_ret = cur - (cur * jitter * random.random())", "cur = cur_ret = cur - (cur * jitter * random.random() * 0.01)")], 'detect'),
    'count-off-by-one': ([(IT, "    while count == 'repeat' or i < count:", "    while count == 'repeat' or i <= count - (1 if reach_stop else 0):")], 'detect'),
    'jitter-range-check-loose': ([(IT, "if not (-1.0 <= jitter <= 1.0):", "if not (-1.0 <= jitter <= 1.5):")], 'detect'),
    'jitter-uses-two-draws': ([(IT, "cur_ret = cur - (cur * jitter * random.random())", "cur_ret = cur - (cur * jitter * (random.random() + random.random()))")], 'detect'),
    'start-zero-follows-one-uncapped': ([(IT, "        if cur > stop:\n            cur = stop\n    return", "        if cur > stop and cur != 1:\n            cur = stop\n    return")], 'detect'),
    'revert-rounding-fix': ([(IT, "        if reach_stop and i == count and cur < stop and cur * factor > cur:", "        if False:")], 'detect'),
    'revert-no-growth-guard': ([(IT, "        if reach_stop and i == count and cur < stop and cur * factor > cur:", "        if reach_stop and i == count and cur < stop:")], 'detect'),
    'validation-after-first-yield': ([(IT, """    if stop < start:
        raise ValueError('expected stop >= start, not %r' % stop)""", """    if stop < start:
        yield start
        raise ValueError('expected stop >= start, not %r' % stop)""")], 'detect'),
    'jitter-extreme-draw-exceeds': ([(IT, "cur_ret = cur - (cur * jitter * random.random())", "cur_ret = cur - (cur * jitter * min(1.0, random.random() * 1.0000001))")], 'benign'),   # the bound is inclusive
}

IO = 'boltons/ioutils.py'
MUTANTS['C18'] = {
    'bytes-rollover-loses-position': ([(IO, """            tmp = TemporaryFile(dir=self._dir)
            pos = self.buffer.tell()
            tmp.write(self.buffer.getvalue())
            tmp.seek(pos)""", """            tmp = TemporaryFile(dir=self._dir)
            pos = self.buffer.tell()
            tmp.write(self.buffer.getvalue())
            tmp.seek(0, os.SEEK_END)""")], 'detect'),
    'bytes-rollover-loses-content': ([(IO, """            tmp = TemporaryFile(dir=self._dir)
            pos = self.buffer.tell()
            tmp.write(self.buffer.getvalue())""", """            tmp = TemporaryFile(dir=self._dir)
            pos = self.buffer.tell()
            tmp.write(self.buffer.getvalue()[:pos])""")], 'detect'),
    'bytes-len-without-flush': ([(IO, """        if self._rolled:
            self.seek(0)
            val = os.fstat(self.fileno()).st_size""", """        if self._rolled:
            val = os.fstat(self.fileno()).st_size""")], 'detect'),
    'text-readline-no-tell-update': ([(IO, """        ret = ''.join(parts)
        self._tell = self.tell() + len(ret)
        return ret""", """        ret = ''.join(parts)
        if len(ret) < 6:
            self._tell = self.tell() + len(ret)
        return ret""")], 'detect'),
    'rollover-threshold-gt': ([(IO, "        if self.tell() + len(s) >= self._max_size:\n            self.rollover()\n        self.buffer.write(s)", "        if self.tell() + len(s) > self._max_size:\n            self.rollover()\n        self.buffer.write(s)")], 'benign'),
    'mfr-index-advances-on-exact-read': ([(IO, "            if got < amt:\n                self._index += 1", "            if got <= amt:\n                self._index += 1")], 'detect'),
    'text-rollover-byte-position': ([(IO, """            pos = self.tell()
            tmp.write(self.buffer.getvalue())
            self.buffer.close()
            self._buffer = tmp
            self.seek(pos)""", """            pos = self.buffer.tell()
            tmp.write(self.buffer.getvalue())
            tmp.seek(pos)
            self.buffer.close()
            self._buffer = tmp""")], 'detect'),
    'text-len-no-restore': ([(IO, "        self.seek(pos)\n        return total", "        self.buffer.seek(0)\n        self._traverse_codepoints(0, pos)\n        return total")], 'detect'),
    'text-seek-chunk-boundary': ([(IO, "            if current_position + READ_CHUNK_SIZE > dest:", "            if current_position + READ_CHUNK_SIZE >= dest + 2:")], 'detect'),
    'mfr-seek-no-index-reset': ([(IO, "            f.seek(0)\n        self._index = 0", "            f.seek(0)")], 'detect'),
    'text-write-counts-bytes': ([(IO, "        self._tell = current_pos + len(s)", "        self._tell = current_pos + (len(s) if self._rolled or len(s) < 4 else len(s.encode('utf-8')))")], 'detect'),
    'text-readlines-splitlines': ([(IO, """        ret = []
        while True:
            line = self.readline()
            if not line:
                break
            ret.append(line)
        return ret""", """        ret = self.read().splitlines(True)
        return ret""")], 'detect'),
    'bytes-readline-length-zero': ([(IO, "        if length:\n            return self.buffer.readline(length)", "        if length is not None:\n            return self.buffer.readline(length)")], 'benign'),
}

# ---- benign refactors: the property still holds, the checks must stay quiet -----------------------
MUTANTS['C03']['benign-threading-module-lock'] = ([(CU, "        self._lock = RLock()\n        self._init_ll()",
                                                    "        import threading\n        self._lock = threading.RLock()\n        self._init_ll()")], 'benign')
MUTANTS['C02']['benign-threading-module-lock'] = MUTANTS['C03']['benign-threading-module-lock']
MUTANTS['C03']['benign-getitem-via-helper'] = ([(CU, """    def get(self, key, default=None):
        try:
            return self[key]
        except KeyError:
            self.soft_miss_count += 1
            return default
""", """    def get(self, key, default=None):
        with self._lock:
            try:
                return self[key]
            except KeyError:
                self.soft_miss_count += 1
                return default
""")], 'benign')
MUTANTS['C12']['benign-monotonic-clock'] = ([(SU, "            start = time.time()\n            find_offset_start = 0", "            start = time.monotonic()\n            find_offset_start = 0"),
                                             (SU, "                        cur_timeout = timeout - (time.time() - start)\n                        if cur_timeout <= 0.0:\n                            raise socket.timeout()\n                        sock.settimeout(cur_timeout)",
                                                  "                        cur_timeout = timeout - (time.monotonic() - start)\n                        if cur_timeout <= 0.0:\n                            raise socket.timeout()\n                        sock.settimeout(cur_timeout)")], 'benign')
MUTANTS['C12']['benign-recv_until-bytes-join'] = ([(SU, "            val, self.rbuf = bytes(recvd[:offset]), bytes(recvd[rbuf_offset:])",
                                                   "            data = bytes(recvd)\n            val, self.rbuf = data[:offset], data[rbuf_offset:]")], 'benign')
MUTANTS['C04']['benign-os-replace'] = ([(FU, "        if overwrite:\n            os.rename(src, dst)\n        else:\n            os.link(src, dst)",
                                        "        if overwrite:\n            os.replace(src, dst)\n        else:\n            os.link(src, dst)")], 'benign')
MUTANTS['C05']['benign-os-replace'] = MUTANTS['C04']['benign-os-replace']
MUTANTS['C04']['benign-fdatasync-plus-dir-fsync'] = ([(FU, _RENAME, """        try:
            atomic_rename(self.part_path, self.dest_path,
                          overwrite=self.overwrite)
            dfd = os.open(self.dest_dir, os.O_RDONLY)
            try:
                os.fsync(dfd)
            finally:
                os.close(dfd)
        except OSError:""")], 'benign')
MUTANTS['C15']['benign-uniform'] = ([(IT, "cur_ret = cur - (cur * jitter * random.random())", "cur_ret = cur - (cur * jitter * random.uniform(0.0, 1.0))")], 'benign')
MUTANTS['C18']['benign-rollover-chunked-bytes'] = ([(IO, """            tmp = TemporaryFile(dir=self._dir)
            pos = self.buffer.tell()
            tmp.write(self.buffer.getvalue())
            tmp.seek(pos)""", """            tmp = TemporaryFile(dir=self._dir)
            pos = self.buffer.tell()
            data = self.buffer.getvalue()
            for i in range(0, len(data), 7):
                tmp.write(data[i:i + 7])
            tmp.seek(pos)""")], 'benign')

MUTANTS['C04']['rename-failure-falls-back-to-copy'] = ([(FU, """        except OSError:
            if self.rm_part_on_exc:
                try:
                    os.unlink(self.part_path)
                except Exception:
                    pass  # avoid masking original error
            raise  # could not save destination file""", """        except OSError:
            if self.overwrite:
                # e.g. cross-device or odd file systems: copy the data over instead
                with open(self.part_path, 'rb') as src, open(self.dest_path, 'wb') as dst:
                    dst.write(src.read())
                os.unlink(self.part_path)
                return
            if self.rm_part_on_exc:
                try:
                    os.unlink(self.part_path)
                except Exception:
                    pass  # avoid masking original error
            raise  # could not save destination file""")], 'detect')

MUTANTS['C12']['recv_until-oserror-drops-buffer'] = ([(SU, """            except BaseException:
                # incl. KeyboardInterrupt, gevent.Timeout, etc: never
                # drop bytes that were already received
                self.rbuf = bytes(recvd)
                raise""", """            except Error:
                self.rbuf = bytes(recvd)
                raise""")], 'detect')
MUTANTS['C12']['revert-cancellation-fix'] = ([(SU, """            except BaseException:
                # incl. KeyboardInterrupt, gevent.Timeout, etc: never
                # drop bytes that were already received
                self.rbuf = bytes(recvd)
                raise""", """            except Exception:
                self.rbuf = bytes(recvd)
                raise""")], 'detect')
MUTANTS['C12']['send-trims-before-send'] = ([(SU, """                    sent = self.sock.send(sbuf[0])
                    total_sent += sent
                    sbuf[0] = sbuf[0][sent:]""", """                    chunk, sbuf[0] = sbuf[0][:4096], sbuf[0][4096:]
                    sent = self.sock.send(chunk)
                    total_sent += sent
                    sbuf[0] = chunk[sent:] + sbuf[0]""")], 'detect')

MUTANTS['C05']['cleanup-only-for-Exception-subclasses'] = ([(FU, """        if exc_type:
            if self.rm_part_on_exc:
                try:
                    os.unlink(self.part_path)""", """        if exc_type and not issubclass(exc_type, Exception):
            return  # KeyboardInterrupt & co: get out of the way quickly
        if exc_type:
            if self.rm_part_on_exc:
                try:
                    os.unlink(self.part_path)""")], 'detect')

MUTANTS['C05']['commit-although-body-raised'] = ([(FU, """        if exc_type:
            if self.rm_part_on_exc:
                try:
                    os.unlink(self.part_path)
                except Exception:
                    pass  # avoid masking original error
            return
        try:
            atomic_rename""", """        if exc_type and not self.overwrite:
            if self.rm_part_on_exc:
                try:
                    os.unlink(self.part_path)
                except Exception:
                    pass  # avoid masking original error
            return
        try:
            atomic_rename""")], 'detect')

MUTANTS['C05']['realpath-destination'] = ([(FU, "        self.dest_path = os.path.abspath(self.dest_path)", "        self.dest_path = os.path.realpath(self.dest_path)")], 'detect')
MUTANTS['C05']['part-open-follows-symlinks'] = ([(FU, "_TEXT_OPENFLAGS = os.O_RDWR | os.O_CREAT | os.O_EXCL", "_TEXT_OPENFLAGS = os.O_RDWR | os.O_CREAT"),
                                                  (FU, "if hasattr(os, 'O_NOFOLLOW'):\n    _TEXT_OPENFLAGS |= os.O_NOFOLLOW", "if False:\n    _TEXT_OPENFLAGS |= os.O_NOFOLLOW")], 'detect')
MUTANTS['C05']['benign-replace-symlink-target'] = ([(FU, """        try:
            atomic_rename(self.part_path, self.dest_path,
                          overwrite=self.overwrite)""", """        try:
            atomic_rename(self.part_path,
                          os.path.realpath(self.dest_path) if self.overwrite else self.dest_path,
                          overwrite=self.overwrite)""")], 'benign')
MUTANTS['C04']['benign-replace-symlink-target'] = MUTANTS['C05']['benign-replace-symlink-target']

MUTANTS['C18']['seek-end-rewinds-before-len'] = ([(IO, """            # NB: take the length first, it puts the position back
            dest_position = self.len - pos
            self.buffer.seek(0)""", """            self.buffer.seek(0)
            dest_position = self.len - pos""")], 'detect')

MUTANTS['C04']['publish-by-copy2'] = ([(FU, """        if overwrite:
            os.rename(src, dst)
        else:
            os.link(src, dst)
            os.unlink(src)
        return


_atomic_rename""", """        if overwrite:
            copy2(src, dst)
            os.unlink(src)
        else:
            os.link(src, dst)
            os.unlink(src)
        return


_atomic_rename""")], 'detect')
MUTANTS['C04']['part-file-via-mkstemp'] = ([(FU, "        fd = os.open(self.part_path, self.open_flags, file_perms)", "        import tempfile\n        fd, self.part_path = tempfile.mkstemp(dir=self.dest_dir, prefix='.save-')\n        os.chmod(self.part_path, file_perms & ~os.umask(os.umask(0)))")], 'unjudgeable')
