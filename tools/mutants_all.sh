#!/bin/sh
# Sensitivity regression: every seeded mutant of every claimed property (scratch copies only).
cd "$(dirname "$0")/.." || exit 2
rc=0
for p in C02 C03 C04 C05 C12 C15 C18; do
  timeout 3000 /venv/bin/python tools/mutants.py $p --budget "${1:-4}" --json /tmp/mutants-$p.json | tail -1 | sed "s/^/$p: /" || rc=1
done
exit $rc
