#!/bin/sh
# Re-run every kept seeded change against the current checks (each on a scratch worktree of /repo); one summary line each.
cd "$(dirname "$0")/.." || exit 2
rc=0
lane=${2:-0}; nlanes=${3:-1}; i=0      # optional: tools/seeded_all.sh <budget> <lane> <nlanes> runs every nlanes-th change
for d in seeded/*/; do
  i=$((i+1)); [ $((i % nlanes)) -eq "$lane" ] || continue
  id=$(basename "$d")
  out=$(timeout 1800 /venv/bin/python tools/seeded.py "seeded/$id" --scratch --budget "${1:-8}" 2>/dev/null) || rc=1
  printf "%s" "$out" | /venv/bin/python -c "
import json,sys
r=json.load(sys.stdin)
ch={k:v for k,v in r.items() if k.startswith('check_')}
for k,v in ch.items():
    if v['exit'] not in (0, 1): print('  harness output of', r['id'], k, ':', (v.get('tail') or '')[-400:].replace(chr(10), ' / '))
print(r['id'], '| suite:', r.get('suite'), '| demo with/without:', r['demo_with_patch'], r['demo_without_patch'], '|', ' '.join('%s exit=%s %s' % (k[6:], v['exit'], ','.join(c[6:] for c in v['classes'])) for k,v in ch.items()))"
done
exit $rc
