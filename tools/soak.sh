#!/bin/sh
# Soak: every quick check under many VERIF_SEED values; any non-zero exit is reported.
cd "$(dirname "$0")/.." || exit 2
first=${1:-1}; last=${2:-10}; rc=0
for seed in $(seq "$first" "$last"); do
  for p in C02 C03 C04 C05 C12 C15 C18; do
    out=$(VERIF_SEED=$seed VERIF_OUT_DIR=/tmp/soak-out VERIF_EVIDENCE_DIR=/tmp/soak-evidence timeout 600 ./check $p --tier quick 2>&1)
    code=$?
    echo "seed=$seed $p exit=$code $(echo "$out" | tail -1 | cut -c1-120)"
    if [ $code -ne 0 ]; then rc=1; echo "$out" | grep -v conda | grep "VIOLATION\|violation\|HARNESS" | head -5; fi
  done
done
exit $rc
