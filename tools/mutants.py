#!/venv/bin/python
"""Sensitivity protocol (DESIGN 2.8): apply a seeded mutant to a scratch copy of the
repository (never to /repo), confirm the pinned suite still passes on the copy,
point the quick check at the copy and require exit 1.  The copy is deleted at once.

usage: tools/mutants.py C12 [name ...] [--tests] [--budget S] [--tier quick]
"""
import argparse
import importlib
import json
import os
import shutil
import subprocess
import sys
import tempfile
import time

HERE = os.path.dirname(os.path.dirname(os.path.abspath(__file__)))
sys.path.insert(0, HERE)
REPO = '/repo'


def make_copy():
    d = tempfile.mkdtemp(prefix='boltons-mut-')
    for name in ('boltons', 'tests', 'pyproject.toml', 'setup.cfg', 'tox.ini'):
        src = os.path.join(REPO, name)
        if os.path.isdir(src):
            shutil.copytree(src, os.path.join(d, name),
                            ignore=shutil.ignore_patterns('__pycache__', '*.pyc'))
        elif os.path.exists(src):
            shutil.copy2(src, os.path.join(d, name))
    return d


def apply(d, edits):
    for rel, old, new in edits:
        p = os.path.join(d, rel)
        s = open(p).read()
        if s.count(old) != 1:
            raise SystemExit('mutant edit does not apply exactly once in %s: %r (count %d)'
                             % (rel, old[:60], s.count(old)))
        open(p, 'w').write(s.replace(old, new))


def run_tests(d):
    p = subprocess.run(['timeout', '-k', '5', '300', '/venv/bin/python', '-B', '-m', 'pytest', '-q', '-x', '-p', 'no:cacheprovider',
                        '--timeout=60', 'tests'], cwd=d, capture_output=True, text=True,
                       env=dict(os.environ, PYTHONDONTWRITEBYTECODE='1'))
    tail = p.stdout.strip().splitlines()[-1] if p.stdout.strip() else p.stderr[-200:]
    return p.returncode == 0, tail


def main():
    ap = argparse.ArgumentParser()
    ap.add_argument('prop')
    ap.add_argument('names', nargs='*')
    ap.add_argument('--tests', action='store_true', help='also run the pinned suite on the mutated copy')
    ap.add_argument('--budget', default='8')
    ap.add_argument('--tier', default='quick')
    ap.add_argument('--json')
    args = ap.parse_args()
    table = importlib.import_module('tools.mutant_tables').MUTANTS[args.prop]
    results = []
    for name, (edits, expect) in table.items():
        if args.names and name not in args.names:
            continue
        d = make_copy()
        try:
            apply(d, edits)
            tests = run_tests(d) if args.tests else (None, 'not run')
            t0 = time.time()
            env = dict(os.environ, VERIF_BUDGET_S=args.budget, VERIF_OUT_DIR=os.path.join(d, 'out'),
                       VERIF_EVIDENCE_DIR=os.path.join(d, 'evidence'))
            try:
                p = subprocess.run(['timeout', '-k', '5', '400', os.path.join(HERE, 'check'), args.prop,
                                    '--tier', args.tier, '--root', d],
                                   capture_output=True, text=True, env=env)
            finally:
                subprocess.run(['pkill', '-f', d], capture_output=True)
            dt = time.time() - t0
            viol = [l for l in p.stdout.splitlines() if l.startswith('VIOLATION')]
            cls = [l for l in p.stdout.splitlines() if l.startswith('violation class=')]
            res = {'mutant': name, 'expect': expect, 'exit': p.returncode, 'violations': len(viol),
                   'classes': sorted(set(c.split()[1] for c in cls)), 'tests_pass': tests[0],
                   'tests_tail': tests[1], 'wall_s': round(dt, 1)}
            ok = (p.returncode == 1) if expect == 'detect' else ((p.returncode == 2) if expect == 'unjudgeable' else (p.returncode == 0))
            # every replay file must reproduce in a fresh process on the mutated tree (exit 1) ...
            rp = []
            for l in viol[:3]:
                path = l.split('replay=', 1)[1].strip()
                q = subprocess.run(['timeout', '-k', '5', '120', os.path.join(HERE, 'check'), args.prop, '--replay', path,
                                    '--root', d], capture_output=True, text=True, env=env)
                rp.append(q.returncode)
                # ... and must not reproduce on the unchanged tree (exit 0)
                q2 = subprocess.run(['timeout', '-k', '5', '120', os.path.join(HERE, 'check'), args.prop, '--replay', path],
                                    capture_output=True, text=True, env=env)
                rp.append(q2.returncode)
            res['replay_exits_mutated_then_clean'] = rp
            if expect == 'detect' and any(rp[i] != (1 if i % 2 == 0 else 0) for i in range(len(rp))):
                ok = False
            res['ok'] = ok
            if p.returncode == 2:
                res['stderr'] = (p.stdout + p.stderr)[-800:]
            results.append(res)
            print(json.dumps(res), flush=True)
        finally:
            shutil.rmtree(d, ignore_errors=True)
            # replay files produced against a scratch copy are not findings on /repo
    bad = [r for r in results if not r['ok']]
    print('%d mutants, %d as expected, %d not' % (len(results), len(results) - len(bad), len(bad)))
    if args.json:
        json.dump(results, open(args.json, 'w'), indent=1)
    return 1 if bad else 0


if __name__ == '__main__':
    sys.exit(main())
