"""simnet -- a scripted stream socket on a discrete-event clock.

The only clock ``boltons.socketutils`` sees is SimClock (rebound as the module
global ``time``); the only transport is SimSocket, passed as the ``sock``
constructor argument.  Time advances only when a socket call blocks (jumping to
the next delivery/drain event or to the timeout) and, optionally, by a fixed
``tick`` per clock reading (models code that is slow between calls).
"""
import socket as _socket

from simkit.core import Unsimulated

INF = float('inf')


class Cancelled(BaseException):
    """The blocking socket call was cancelled from outside (KeyboardInterrupt, gevent.Timeout,
    GreenletExit ...): a BaseException raised once by a scripted recv()/send() call."""


class StepCapExceeded(BaseException):
    """The code under test made more socket calls than any correct run can need."""


class SimClock:
    """Object with the subset of the ``time`` module socketutils uses."""

    def __init__(self, log, tick=0.0):
        self.now = 0.0
        self.tick = tick
        self.log = log
        self.reads = 0

    def time(self):
        self.reads += 1
        self.now += self.tick
        return self.now

    def monotonic(self):
        return self.time()

    perf_counter = monotonic

    def time_ns(self):
        return int(self.time() * 1e9)

    monotonic_ns = perf_counter_ns = time_ns

    def sleep(self, d):
        if d > 0:
            self.advance_to(self.now + d)

    def __getattr__(self, name):
        raise Unsimulated('time.%s is not simulated' % name)

    def advance_to(self, t):
        if t > self.now:
            self.log.add('clock', round(t, 9))
            self.now = t


class SimSocket:
    """Stream socket whose peer and kernel are scripts.

    inbound:  list of [gap, nbytes]; delivery i becomes readable at
              sum(gaps[:i+1]); after the last one the peer's close arrives
              ``close_gap`` later (None: the peer never closes).
    recv_split: cyclic list of ints; 0 = return everything allowed, k = at most k.
    outbound: kernel buffer of ``sndbuf`` bytes, drained by [gap, nbytes] events;
              when the script is exhausted faults stop: the buffer drains instantly.
    send_split: cyclic list like recv_split for how much send() accepts.
    """

    def __init__(self, clock, log, stream=b'', inbound=(), close_gap=0.0, recv_split=(0,),
                 sndbuf=1 << 30, drains=(), send_split=(0,), call_cap=1 << 60,
                 recv_errors=(), send_errors=()):
        self.call_cap = call_cap
        # transient socket errors: {call index: errno}; the call raises OSError once, nothing is consumed
        self.recv_errors = {int(i): int(e) for i, e in recv_errors}
        self.send_errors = {int(i): int(e) for i, e in send_errors}
        self.errors_raised = 0
        self.clock = clock
        self.log = log
        self._timeout = None
        # inbound
        self.stream = bytes(stream)
        self.deliveries = []        # (time, bytes)
        t, pos = 0.0, 0
        inbound = [list(d) for d in inbound]
        for i, (gap, n) in enumerate(inbound):
            n = max(0, int(n))
            if i == len(inbound) - 1:
                n = len(self.stream) - pos          # last delivery takes the rest
            n = min(n, len(self.stream) - pos)
            t += max(0.0, gap)
            if n > 0:
                self.deliveries.append((t, self.stream[pos:pos + n]))
                pos += n
        if pos < len(self.stream):
            self.deliveries.append((t, self.stream[pos:]))
        self.close_time = None if close_gap is None else t + max(0.0, close_gap)
        self.inq = bytearray()
        self.peer_closed = False
        self.recv_split = list(recv_split) or [0]
        self._ri = 0
        self.recv_returns = []      # lengths of every non-empty recv() return, in order
        self.recv_calls = 0
        # outbound
        self.sndbuf = max(1, int(sndbuf))
        self.kbuf = bytearray()
        self.peer_got = bytearray()
        self.drains = []
        t = 0.0
        for gap, n in drains:
            t += max(0.0, gap)
            self.drains.append((t, max(1, int(n))))
        self.send_split = list(send_split) or [0]
        self._si = 0
        self.send_calls = 0
        self.partial_sends = 0
        self.closed = False

    # -- helpers ---------------------------------------------------------------
    def _pump(self):
        now = self.clock.now
        while self.deliveries and self.deliveries[0][0] <= now:
            self.inq.extend(self.deliveries.pop(0)[1])
        if (not self.deliveries and self.close_time is not None
                and self.close_time <= now):
            self.peer_closed = True
        while self.drains and self.drains[0][0] <= now:
            _, n = self.drains.pop(0)
            self.peer_got.extend(self.kbuf[:n])
            del self.kbuf[:n]
        if not self.drains:         # faults stopped: instant drain
            self.peer_got.extend(self.kbuf)
            del self.kbuf[:]

    def undelivered(self):
        return bytes(self.inq) + b''.join(d[1] for d in self.deliveries)

    def next_inbound_event(self):
        if self.deliveries:
            return self.deliveries[0][0]
        if self.close_time is not None and not self.peer_closed:
            return self.close_time
        return INF

    def faults_pending(self):
        return bool(self.deliveries) or bool(self.drains) or (
            self.close_time is not None and not self.peer_closed)

    # -- socket API ------------------------------------------------------------
    def gettimeout(self):
        return self._timeout

    def settimeout(self, t):
        if t is not None:
            t = float(t)
            if t < 0.0:
                raise ValueError('Timeout value out of range')
        self._timeout = t
        self.log.add('settimeout', None if t is None else round(t, 9))

    def _block_until(self, when):
        """Block until simulated time *when*; returns False on timeout."""
        t = self._timeout
        now = self.clock.now
        if t is not None and t == 0.0:
            return None                      # non-blocking
        if t is None:
            if when == INF:
                raise RuntimeError('simnet: blocking forever (harness bug: no event pending)')
            self.clock.advance_to(when)
            return True
        if when <= now + t:
            self.clock.advance_to(when)
            return True
        self.clock.advance_to(now + t)
        return False

    def recv(self, n, flags=0):
        if self.closed:
            raise OSError(9, 'Bad file descriptor')
        self.recv_calls += 1
        if self.recv_calls > self.call_cap:
            raise StepCapExceeded('recv')
        if n <= 0:
            raise ValueError('simnet: recv(%r)' % n)
        e = self.recv_errors.pop(self.recv_calls, None)
        if e is not None:
            self.errors_raised += 1
            self.log.add('recv', n, 'errno', e)
            if e == 0:
                raise Cancelled('simulated cancellation inside recv()')
            raise OSError(e, 'simulated transient socket error')
        self._pump()
        while not self.inq and not self.peer_closed:
            r = self._block_until(self.next_inbound_event())
            if r is None:
                self.log.add('recv', n, 'EWOULDBLOCK')
                raise BlockingIOError(11, 'Resource temporarily unavailable')
            self._pump()
            if r is False and not self.inq and not self.peer_closed:
                self.log.add('recv', n, 'timeout')
                raise _socket.timeout('timed out')
        if not self.inq:
            self.log.add('recv', n, b'')
            return b''
        k = self.recv_split[self._ri % len(self.recv_split)]
        self._ri += 1
        avail = min(n, len(self.inq))
        k = avail if k <= 0 else min(k, avail)
        data = bytes(self.inq[:k])
        del self.inq[:k]
        self.recv_returns.append(k)
        self.log.add('recv', n, data)
        return data

    def send(self, data, flags=0):
        if self.closed:
            raise OSError(9, 'Bad file descriptor')
        self.send_calls += 1
        if self.send_calls > self.call_cap:
            raise StepCapExceeded('send')
        data = bytes(data)
        e = self.send_errors.pop(self.send_calls, None)
        if e is not None:
            self.errors_raised += 1
            self.log.add('send', len(data), 'errno', e)
            if e == 0:
                raise Cancelled('simulated cancellation inside send()')
            raise OSError(e, 'simulated transient socket error')
        self._pump()
        if not data:
            self.log.add('send', 0, 0)
            return 0
        while len(self.kbuf) >= self.sndbuf:
            when = self.drains[0][0] if self.drains else self.clock.now
            r = self._block_until(when)
            if r is None:
                self.log.add('send', len(data), 'EWOULDBLOCK')
                raise BlockingIOError(11, 'Resource temporarily unavailable')
            self._pump()
            if r is False and len(self.kbuf) >= self.sndbuf:
                self.log.add('send', len(data), 'timeout')
                raise _socket.timeout('timed out')
        space = self.sndbuf - len(self.kbuf)
        k = self.send_split[self._si % len(self.send_split)]
        self._si += 1
        avail = min(len(data), space)
        k = avail if k <= 0 else min(k, avail)
        if k < len(data):
            self.partial_sends += 1
        self.kbuf.extend(data[:k])
        self.log.add('send', len(data), k)
        self._pump()
        return k

    def sendall(self, data, flags=0):
        data = bytes(data)
        while data:
            n = self.send(data)
            data = data[n:]

    def recv_into(self, buf, nbytes=0, flags=0):
        n = nbytes or len(buf)
        data = self.recv(n)
        buf[:len(data)] = data
        return len(data)

    def setblocking(self, flag):
        self.settimeout(None if flag else 0.0)

    def getsockopt(self, *a):
        return 0

    def setsockopt(self, *a):
        return None

    def __getattr__(self, name):
        raise Unsimulated('socket.%s is not simulated' % name)

    type = _socket.SOCK_STREAM
    family = _socket.AF_INET
    proto = 0

    def close(self):
        self.closed = True
        self.log.add('close')

    def shutdown(self, how):
        self.log.add('shutdown', how)

    def fileno(self):
        return -1 if self.closed else 1000
