"""threadsim -- seeded scheduling of real threads at bytecode granularity.

Every logical thread is a real threading.Thread that runs only while it holds the
baton; the scheduler below is the only code that passes it, so exactly one logical
thread executes at any instant and the interleaving *is* the sequence of baton
passes.  Pre-emption points: an 'opcode' trace event before every bytecode of the
traced source files, every simulated-lock acquire/release, and explicit
yield_point() calls made by the harness (operation invoke/return, callbacks).
"""
import random
import sys
import threading


class SimAbort(BaseException):
    """Unwinds a logical thread when the run is aborted (deadlock, step cap)."""


class LThread:
    __slots__ = ('tid', 'fn', 'gate', 'thread', 'done', 'blocked_on', 'error', 'started')

    def __init__(self, tid, fn):
        self.tid = tid
        self.fn = fn
        self.gate = threading.Semaphore(0)
        self.thread = None
        self.done = False
        self.blocked_on = None
        self.error = None
        self.started = False


# ------------------------------------------------------------------------------
# scheduling policies: choose(sched, runnable_tids, cur_tid_or_None, forced) -> tid

class RandomPolicy:
    """Uniform random switch with probability p at every yield point."""

    def __init__(self, seed, p):
        self.rng = random.Random(seed)
        self.p = p

    def choose(self, sched, runnable, cur, forced):
        if forced:
            return runnable[self.rng.randrange(len(runnable))] if len(runnable) > 1 else runnable[0]
        if len(runnable) > 1 and self.rng.random() < self.p:
            others = [t for t in runnable if t != cur]
            return others[self.rng.randrange(len(others))]
        return cur


class PCTPolicy:
    """PCT (Burckhardt et al.): random priorities, d-1 priority-change points."""

    def __init__(self, seed, nthreads, d, horizon):
        rng = random.Random(seed)
        order = list(range(nthreads))
        rng.shuffle(order)
        self.prio = {t: d + i for i, t in enumerate(order)}     # higher runs first
        self.change = {}
        for i in range(d - 1):
            self.change[rng.randint(1, max(1, horizon))] = d - 1 - i

    def choose(self, sched, runnable, cur, forced):
        lvl = self.change.get(sched.step)
        if lvl is not None and cur is not None:
            self.prio[cur] = lvl
        return max(runnable, key=lambda t: self.prio[t])


class BoundedPolicy:
    """Exactly k forced pre-emptions at seeded steps; otherwise run to block/finish."""

    def __init__(self, seed, k, horizon):
        self.rng = random.Random(seed)
        self.points = set(self.rng.randint(1, max(1, horizon)) for _ in range(k))

    def choose(self, sched, runnable, cur, forced):
        if forced:
            return runnable[self.rng.randrange(len(runnable))] if len(runnable) > 1 else runnable[0]
        if sched.step in self.points and len(runnable) > 1:
            others = [t for t in runnable if t != cur]
            return others[self.rng.randrange(len(others))]
        return cur


class ExplicitPolicy:
    """Replay / minimisation: switches = [[step, tid], ...]; otherwise keep running;
    at a forced decision without a directive pick the lowest runnable tid."""

    def __init__(self, switches, first=None):
        self.at = {int(s): int(t) for s, t in switches}
        self.first = first

    def choose(self, sched, runnable, cur, forced):
        t = self.at.get(sched.step)
        if t is not None and t in runnable:
            return t
        if forced:
            return runnable[0]
        return cur


def make_policy(spec, nthreads):
    kind = spec['kind']
    if kind == 'random':
        return RandomPolicy(spec['seed'], spec['p'])
    if kind == 'pct':
        return PCTPolicy(spec['seed'], nthreads, spec['d'], spec['horizon'])
    if kind == 'bounded':
        return BoundedPolicy(spec['seed'], spec['k'], spec['horizon'])
    if kind == 'sequential':
        return RandomPolicy(spec['seed'], 0.0)
    if kind == 'explicit':
        return ExplicitPolicy(spec['switches'])
    raise ValueError(kind)


# ------------------------------------------------------------------------------

class Scheduler:
    def __init__(self, policy, log, trace_files, step_cap=20000):
        self.policy = policy
        self.log = log
        self.trace_files = frozenset(trace_files)
        self.step_cap = step_cap
        self.threads = []
        self.cur = None
        self.step = 0
        self.switches = []          # (step, from_tid, to_tid, where)
        self.abort_reason = None
        self.main_gate = threading.Semaphore(0)
        self.contended = 0
        self.switch_in_traced = 0   # switches taken at an opcode inside the traced files
        self.where = None

    # -- construction -------------------------------------------------------------
    def spawn(self, fn):
        t = LThread(len(self.threads), fn)
        self.threads.append(t)
        return t

    # -- trace functions ----------------------------------------------------------
    def _gtrace(self, frame, event, arg):
        if frame.f_code.co_filename in self.trace_files:
            frame.f_trace_opcodes = True
            frame.f_trace_lines = False
            return self._ltrace
        return None

    def _ltrace(self, frame, event, arg):
        if event == 'opcode':
            co = frame.f_code
            self.yield_point(('op', co.co_name, frame.f_lasti))
        return self._ltrace

    # -- core ---------------------------------------------------------------------
    def runnable(self):
        return [t.tid for t in self.threads if not t.done and t.blocked_on is None]

    def yield_point(self, where):
        """A point where the simulated OS may pre-empt the running thread."""
        if self.abort_reason is not None:
            raise SimAbort()
        me = self.cur
        self.step += 1
        if self.step > self.step_cap:
            self._abort('no-progress')
            raise SimAbort()
        nxt = self.policy.choose(self, self.runnable(), me.tid, False)
        if nxt != me.tid:
            if where[0] == 'op':
                self.switch_in_traced += 1
            self._switch(me, nxt, where)
        return self.step

    def block(self, where):
        """The running thread cannot proceed (lock held elsewhere)."""
        if self.abort_reason is not None:
            raise SimAbort()
        me = self.cur
        self.step += 1
        if self.step > self.step_cap:
            self._abort('no-progress')
            raise SimAbort()
        run = self.runnable()
        if not run:
            self._abort('deadlock')
            raise SimAbort()
        nxt = self.policy.choose(self, run, None, True)
        self._switch(me, nxt, where)

    def _switch(self, me, nxt, where):
        self.switches.append((self.step, me.tid, nxt, where))
        self.log.add('switch', self.step, me.tid, nxt, where)
        self.cur = self.threads[nxt]
        self.cur.gate.release()
        me.gate.acquire()
        if self.abort_reason is not None:
            raise SimAbort()

    def _abort(self, reason):
        if self.abort_reason is None:
            self.abort_reason = reason
            self.log.add('abort', self.step, reason)

    def _body(self, t):
        t.gate.acquire()
        t.started = True
        try:
            if self.abort_reason is None:
                sys.settrace(self._gtrace)
                try:
                    t.fn()
                finally:
                    sys.settrace(None)
        except SimAbort:
            pass
        except BaseException as e:      # a bug in the harness program itself
            t.error = e
            self._abort('harness-error')
        t.done = True
        self._exit_handoff(t)

    def _exit_handoff(self, t):
        if self.abort_reason is not None:
            rest = [x for x in self.threads if not x.done]
            if rest:
                self.cur = rest[0]
                rest[0].gate.release()
            else:
                self.main_gate.release()
            return
        self.step += 1
        run = self.runnable()
        if run:
            nxt = self.policy.choose(self, run, None, True)
            self.switches.append((self.step, t.tid, nxt, ('exit',)))
            self.log.add('switch', self.step, t.tid, nxt, ('exit',))
            self.cur = self.threads[nxt]
            self.cur.gate.release()
            return
        rest = [x for x in self.threads if not x.done]
        if rest:                       # everybody left is blocked
            self._abort('deadlock')
            self.cur = rest[0]
            rest[0].gate.release()
        else:
            self.main_gate.release()

    def run(self):
        for t in self.threads:
            t.thread = threading.Thread(target=self._body, args=(t,), daemon=True)
            t.thread.start()
        first = self.policy.choose(self, self.runnable(), None, True)
        self.log.add('start', first)
        self.cur = self.threads[first]
        self.cur.gate.release()
        self.main_gate.acquire()
        for t in self.threads:
            t.thread.join()
        self.cur = None
        for t in self.threads:
            if t.error is not None:
                raise t.error
        return self.abort_reason


class SimRLock:
    """Re-entrant lock whose blocking is a scheduler decision."""

    def __init__(self, sched):
        self.sched = sched
        self.owner = None
        self.count = 0
        self.acquisitions = 0

    def acquire(self, blocking=True, timeout=-1):
        s = self.sched
        if s.cur is None:               # outside a simulated run (set-up, probing): no contention
            if self.owner not in (None, 'main'):
                raise RuntimeError('lock still held by a finished logical thread')
            self.owner = 'main'
            self.count += 1
            return True
        if s.abort_reason is not None:
            raise SimAbort()
        me = s.cur
        s.yield_point(('lock', 'acquire'))
        while self.owner is not None and self.owner is not me:
            s.contended += 1
            me.blocked_on = self
            s.block(('lock', 'blocked'))
        self.owner = me
        self.count += 1
        self.acquisitions += 1
        return True

    def release(self):
        s = self.sched
        if s.cur is None:
            if self.owner != 'main':
                raise RuntimeError('cannot release un-acquired lock')
            self.count -= 1
            if self.count == 0:
                self.owner = None
            return
        if s.abort_reason is not None:
            return
        if self.owner is not s.cur:
            raise RuntimeError('cannot release un-acquired lock')
        self.count -= 1
        if self.count == 0:
            self.owner = None
            for t in s.threads:
                if t.blocked_on is self:
                    t.blocked_on = None
        s.yield_point(('lock', 'release'))

    __enter__ = acquire

    def __exit__(self, *a):
        self.release()

    def _is_owned(self):
        return self.owner is self.sched.cur


class SimLock(SimRLock):
    """Non re-entrant variant (used when the code under test creates a plain Lock)."""

    def acquire(self, blocking=True, timeout=-1):
        s = self.sched
        if s.abort_reason is not None:
            raise SimAbort()
        me = s.cur
        s.yield_point(('lock', 'acquire'))
        while self.owner is not None:
            s.contended += 1
            me.blocked_on = self
            s.block(('lock', 'blocked'))       # self-deadlock if owner is me
        self.owner = me
        self.count = 1
        return True

    __enter__ = acquire


class OpcodeBudget:
    """Context manager: run code in the calling thread with an opcode budget over
    the traced files (converts an endless loop into StepCap)."""

    class Exceeded(BaseException):
        pass

    def __init__(self, trace_files, budget):
        self.files = frozenset(trace_files)
        self.left = budget

    def _g(self, frame, event, arg):
        if frame.f_code.co_filename in self.files:
            frame.f_trace_opcodes = True
            frame.f_trace_lines = False
            return self._l
        return None

    def _l(self, frame, event, arg):
        if event == 'opcode':
            self.left -= 1
            if self.left < 0:
                raise OpcodeBudget.Exceeded()
        return self._l

    def __enter__(self):
        sys.settrace(self._g)
        return self

    def __exit__(self, *a):
        sys.settrace(None)
        return False
