"""threadsim -- seeded scheduling of real threads at bytecode granularity.

Every logical thread is a real threading.Thread that runs only while it holds the
baton; the scheduler below is the only code that passes it, so exactly one logical
thread executes at any instant and the interleaving *is* the sequence of baton
passes.  Pre-emption points: an 'opcode' trace event before every bytecode of the
traced source files, every simulated-lock acquire/release, and explicit
yield_point() calls made by the harness (operation invoke/return, callbacks).
"""
import random
import sys
import _thread
import threading


class SimAbort(BaseException):
    """Unwinds a logical thread when the run is aborted (deadlock, step cap)."""


class SelfDeadlock(Exception):
    """Uncontended mode only: the single caller would block on itself forever."""


class LThread:
    __slots__ = ('tid', 'fn', 'gate', 'thread', 'done', 'blocked_on', 'error', 'started', 'ident', 'finished')

    def __init__(self, tid, fn):
        self.tid = tid
        self.fn = fn
        self.gate = threading.Semaphore(0)
        self.thread = None
        self.done = False
        self.blocked_on = None
        self.error = None
        self.started = False
        self.ident = None
        self.finished = None


# ------------------------------------------------------------------------------
# scheduling policies: choose(sched, runnable_tids, cur_tid_or_None, forced) -> tid

class RandomPolicy:
    """Uniform random switch with probability p at every yield point."""

    def __init__(self, seed, p):
        self.rng = random.Random(seed)
        self.p = p

    def choose(self, sched, runnable, cur, forced):
        if forced:
            return runnable[self.rng.randrange(len(runnable))] if len(runnable) > 1 else runnable[0]
        if len(runnable) > 1 and self.rng.random() < self.p:
            others = [t for t in runnable if t != cur]
            return others[self.rng.randrange(len(others))]
        return cur


class PCTPolicy:
    """PCT (Burckhardt et al.): random priorities, d-1 priority-change points."""

    def __init__(self, seed, nthreads, d, horizon):
        rng = random.Random(seed)
        order = list(range(nthreads))
        rng.shuffle(order)
        self.prio = {t: d + i for i, t in enumerate(order)}     # higher runs first
        self.change = {}
        for i in range(d - 1):
            self.change[rng.randint(1, max(1, horizon))] = d - 1 - i

    def choose(self, sched, runnable, cur, forced):
        lvl = self.change.get(sched.step)
        if lvl is not None and cur is not None:
            self.prio[cur] = lvl
        return max(runnable, key=lambda t: self.prio[t])


class BoundedPolicy:
    """Exactly k forced pre-emptions at seeded steps; otherwise run to block/finish.
    handoff: when a lock release wakes a waiting thread, that thread runs next."""

    def __init__(self, seed, k, horizon, handoff=False):
        self.rng = random.Random(seed)
        self.points = set(self.rng.randint(1, max(1, horizon)) for _ in range(k))
        self.handoff = handoff

    def choose(self, sched, runnable, cur, forced):
        if self.handoff and not forced and sched.woken:
            w = [t for t in sched.woken if t in runnable and t != cur]
            if w:
                return w[0]
        if forced:
            return runnable[self.rng.randrange(len(runnable))] if len(runnable) > 1 else runnable[0]
        if sched.step in self.points and len(runnable) > 1:
            others = [t for t in runnable if t != cur]
            return others[self.rng.randrange(len(others))]
        return cur


class ExplicitPolicy:
    """Replay / minimisation: switches = [[step, tid], ...]; otherwise keep running;
    at a forced decision without a directive pick the lowest runnable tid."""

    def __init__(self, switches, first=None, handoff=False):
        self.at = {int(s): int(t) for s, t in switches}
        self.first = first
        self.handoff = handoff

    def choose(self, sched, runnable, cur, forced):
        t = self.at.get(sched.step)
        if t is not None and t in runnable:
            return t
        if self.handoff and not forced and sched.woken:
            w = [x for x in sched.woken if x in runnable and x != cur]
            if w:
                return w[0]
        if forced:
            return runnable[0]
        return cur


def make_policy(spec, nthreads):
    pol = _make_policy(spec, nthreads)
    pol.raw_threads = bool(spec.get('raw'))      # logical threads unknown to the threading module
    return pol


def _make_policy(spec, nthreads):
    kind = spec['kind']
    if kind == 'random':
        return RandomPolicy(spec['seed'], spec['p'])
    if kind == 'pct':
        return PCTPolicy(spec['seed'], nthreads, spec['d'], spec['horizon'])
    if kind == 'bounded':
        return BoundedPolicy(spec['seed'], spec['k'], spec['horizon'], spec.get('handoff', False))
    if kind == 'sequential':
        return RandomPolicy(spec['seed'], 0.0)
    if kind == 'explicit':
        return ExplicitPolicy(spec['switches'], handoff=spec.get('handoff', False))
    raise ValueError(kind)


# ------------------------------------------------------------------------------

class Scheduler:
    def __init__(self, policy, log, step_cap=20000):
        self.policy = policy
        self.log = log
        self.step_cap = step_cap
        self.threads = []
        self.cur = None
        self.step = 0
        self.switches = []          # (step, from_tid, to_tid, where)
        self.abort_reason = None
        self.main_gate = threading.Semaphore(0)
        self.contended = 0
        self.locks = []             # every simulated lock created for this run
        self.woken = []             # tids made runnable by the lock release being yielded at
        self.switch_in_traced = 0   # switches taken at an opcode inside the traced files
        self.where = None

    # -- construction -------------------------------------------------------------
    def spawn(self, fn):
        t = LThread(len(self.threads), fn)
        self.threads.append(t)
        return t

    # -- core ---------------------------------------------------------------------
    def runnable(self):
        return [t.tid for t in self.threads if not t.done and t.blocked_on is None]

    def yield_point(self, where):
        """A point where the simulated OS may pre-empt the running thread."""
        if self.abort_reason is not None:
            raise SimAbort()
        me = self.cur
        self.step += 1
        if self.step > self.step_cap:
            self._abort('no-progress')
            raise SimAbort()
        nxt = self.policy.choose(self, self.runnable(), me.tid, False)
        if nxt != me.tid:
            if where[0] == 'op':
                self.switch_in_traced += 1
            self._switch(me, nxt, where)
        return self.step

    def block(self, where):
        """The running thread cannot proceed (lock held elsewhere)."""
        if self.abort_reason is not None:
            raise SimAbort()
        me = self.cur
        self.step += 1
        if self.step > self.step_cap:
            self._abort('no-progress')
            raise SimAbort()
        run = self.runnable()
        if not run:
            self._abort('deadlock')
            raise SimAbort()
        nxt = self.policy.choose(self, run, None, True)
        self._switch(me, nxt, where)

    def _switch(self, me, nxt, where):
        self.switches.append((self.step, me.tid, nxt, where))
        self.log.add('switch', self.step, me.tid, nxt, where)
        self.cur = self.threads[nxt]
        self.cur.gate.release()
        me.gate.acquire()
        if self.abort_reason is not None:
            raise SimAbort()

    def _abort(self, reason):
        if self.abort_reason is None:
            self.abort_reason = reason
            self.log.add('abort', self.step, reason)

    def _body(self, t):
        t.ident = threading.get_ident()
        try:
            self._body2(t)
        finally:
            if t.finished is not None:
                t.finished.release()

    def _body2(self, t):
        t.gate.acquire()
        t.started = True
        try:
            if self.abort_reason is None:
                t.fn()
        except SimAbort:
            pass
        except BaseException as e:      # a bug in the harness program itself
            t.error = e
            self._abort('harness-error')
        t.done = True
        self._exit_handoff(t)

    def _exit_handoff(self, t):
        if self.abort_reason is not None:
            rest = [x for x in self.threads if not x.done]
            if rest:
                self.cur = rest[0]
                rest[0].gate.release()
            else:
                self.main_gate.release()
            return
        self.step += 1
        run = self.runnable()
        if run:
            nxt = self.policy.choose(self, run, None, True)
            self.switches.append((self.step, t.tid, nxt, ('exit',)))
            self.log.add('switch', self.step, t.tid, nxt, ('exit',))
            self.cur = self.threads[nxt]
            self.cur.gate.release()
            return
        rest = [x for x in self.threads if not x.done]
        if rest:                       # everybody left is blocked
            self._abort('deadlock')
            self.cur = rest[0]
            rest[0].gate.release()
        else:
            self.main_gate.release()

    def run(self):
        # 'opcode' events are only delivered if some frame had f_trace_opcodes set before
        # the trace function is installed (CPython 3.12)
        global _ACTIVE
        if _TOOL is None:
            raise RuntimeError('threadsim.install() was not called')
        raw = bool(getattr(self.policy, 'raw_threads', False))
        for t in self.threads:
            if raw:
                # threads the threading module does not know about (what _thread.start_new_thread, a C
                # extension or an embedding application create): threading.active_count() stays 1
                t.finished = threading.Semaphore(0)
                _thread.start_new_thread(self._body, (t,))
            else:
                t.thread = threading.Thread(target=self._body, args=(t,), daemon=True)
                t.thread.start()
        _ACTIVE = self
        first = self.policy.choose(self, self.runnable(), None, True)
        self.first = first
        self.log.add('start', first)
        self.cur = self.threads[first]
        self.cur.gate.release()
        self.main_gate.acquire()
        _ACTIVE = None
        for t in self.threads:
            if t.thread is not None:
                t.thread.join()
            else:
                t.finished.acquire()
        self.cur = None
        for t in self.threads:
            if t.error is not None:
                raise t.error
        return self.abort_reason


class SimRLock:
    """Re-entrant lock whose blocking is a scheduler decision."""

    def __init__(self, sched):
        self.sched = sched
        self.owner = None
        self.count = 0
        self.acquisitions = 0
        locks = getattr(sched, 'locks', None)
        if locks is not None:
            locks.append(self)

    def acquire(self, blocking=True, timeout=-1):
        s = self.sched
        if s.cur is None:               # outside a simulated run (set-up, probing): no contention
            if self.owner not in (None, 'main'):
                raise RuntimeError('lock still held by a finished logical thread')
            self.owner = 'main'
            self.count += 1
            return True
        if s.abort_reason is not None:
            raise SimAbort()
        me = s.cur
        s.yield_point(('lock', 'acquire'))
        if (not blocking or (timeout is not None and timeout >= 0)) and self.owner is not None and self.owner is not me:
            # acquire(False) / acquire(timeout=t): the lock is busy, the caller is told so (a timed wait that
            # would have succeeded is the same as being scheduled later)
            s.contended += 1
            return False
        while self.owner is not None and self.owner is not me:
            s.contended += 1
            me.blocked_on = self
            s.block(('lock', 'blocked'))
        self.owner = me
        self.count += 1
        self.acquisitions += 1
        return True

    def release(self):
        s = self.sched
        if s.cur is None:
            if self.owner != 'main':
                raise RuntimeError('cannot release un-acquired lock')
            self.count -= 1
            if self.count == 0:
                self.owner = None
            return
        if s.abort_reason is not None:
            return
        if self.owner is not s.cur:
            raise RuntimeError('cannot release un-acquired lock')
        self.count -= 1
        woken = []
        if self.count == 0:
            self.owner = None
            for t in s.threads:
                if t.blocked_on is self:
                    t.blocked_on = None
                    woken.append(t.tid)
        s.woken = woken
        try:
            s.yield_point(('lock', 'release'))
        finally:
            s.woken = []

    __enter__ = acquire

    def __exit__(self, *a):
        self.release()

    def _is_owned(self):
        if self.owner is None:
            return False
        return self.owner is self.sched.cur or (self.sched.cur is None and self.owner == 'main')


class SimEvent:
    """threading.Event whose waiting is a scheduler decision (a real Event would stop the one thread that holds
    the baton, i.e. the whole simulation).  wait() blocks until set(); a wait that nobody can ever satisfy is
    the scheduler's 'deadlock'.  A timed wait on an unset event returns False at once (simulated time has no 'short')."""

    def __init__(self, sched):
        self.sched = sched
        self.flag = False

    def is_set(self):
        return self.flag

    isSet = is_set

    def set(self):
        s = self.sched
        self.flag = True
        if s.cur is None:
            return
        for t in s.threads:
            if t.blocked_on is self:
                t.blocked_on = None
        s.yield_point(('event', 'set'))

    def clear(self):
        self.flag = False

    def wait(self, timeout=None):
        s = self.sched
        if s.cur is None:
            return self.flag
        if s.abort_reason is not None:
            raise SimAbort()
        me = s.cur
        s.yield_point(('event', 'wait'))
        if timeout is not None and not self.flag:
            return False
        while not self.flag:
            me.blocked_on = self
            s.block(('event', 'blocked'))
        return True


class SimLock(SimRLock):
    """Non re-entrant variant (used when the code under test creates a plain Lock)."""

    def acquire(self, blocking=True, timeout=-1):
        s = self.sched
        if s.cur is None:
            if self.owner is not None:
                raise SelfDeadlock('non re-entrant lock acquired twice by the same caller')
            self.owner = 'main'
            self.count = 1
            return True
        if s.abort_reason is not None:
            raise SimAbort()
        me = s.cur
        s.yield_point(('lock', 'acquire'))
        if (not blocking or (timeout is not None and timeout >= 0)) and self.owner is not None:
            s.contended += 1
            return False
        while self.owner is not None:
            s.contended += 1
            me.blocked_on = self
            s.block(('lock', 'blocked'))       # self-deadlock if owner is me
        self.owner = me
        self.count = 1
        return True

    __enter__ = acquire


# ------------------------------------------------------------------------------
# Pre-emption points at every bytecode: sys.monitoring INSTRUCTION events, enabled
# *locally* on the code objects of the files under test, once per process, never
# toggled afterwards (sys.settrace re-instruments all executing code whenever the set
# of tracing threads changes, which crashes CPython 3.12.1 when another thread is
# parked inside a callback).

_TOOL = None
_ACTIVE = None        # the Scheduler whose logical threads are running, if any
_BUDGET = None        # an OpcodeBudget armed in the main thread, if any
_FILES = frozenset()


def _collect_code(module, files):
    import types
    seen = set()
    out = []

    def add_code(co):
        if id(co) in seen:
            return
        seen.add(id(co))
        if co.co_filename in files:
            out.append(co)
        for k in co.co_consts:
            if isinstance(k, types.CodeType):
                add_code(k)

    def visit(obj, depth=0):
        if id(obj) in seen or depth > 6:
            return
        if isinstance(obj, types.FunctionType):
            seen.add(id(obj))
            add_code(obj.__code__)
            w = getattr(obj, '__wrapped__', None)
            if w is not None:
                visit(w, depth + 1)
        elif isinstance(obj, (staticmethod, classmethod)):
            visit(obj.__func__, depth + 1)
        elif isinstance(obj, property):
            for f in (obj.fget, obj.fset, obj.fdel):
                if f is not None:
                    visit(f, depth + 1)
        elif isinstance(obj, type):
            if getattr(obj, '__module__', None) != module.__name__:
                return
            seen.add(id(obj))
            for v in list(vars(obj).values()):
                visit(v, depth + 1)
        else:
            f = getattr(obj, '__func__', None) or getattr(obj, 'func', None)
            if isinstance(f, types.FunctionType):
                visit(f, depth + 1)

    for v in list(vars(module).values()):
        visit(v)
    return out


def enable_without_tracing():
    """Let a Scheduler run in a process that does not pre-empt at bytecodes: the only pre-emption points are the
    explicit ones (simulated lock operations and whatever seam calls the harness marks with yield_point())."""
    global _TOOL
    if _TOOL is None:
        _TOOL = 'explicit-yield-points-only'


def install(module):
    """Instrument every code object defined in *module*'s source file (idempotent)."""
    global _TOOL, _FILES
    mon = sys.monitoring
    files = frozenset([module.__file__])
    if _TOOL is None:
        for tool in (mon.PROFILER_ID, mon.COVERAGE_ID, 3, 4):
            try:
                mon.use_tool_id(tool, 'threadsim')
            except ValueError:
                continue
            _TOOL = tool
            break
        else:
            raise RuntimeError('no free sys.monitoring tool id')
        mon.register_callback(_TOOL, mon.events.INSTRUCTION, _on_instruction)
    codes = _collect_code(module, files)
    for co in codes:
        mon.set_local_events(_TOOL, co, mon.events.INSTRUCTION)
    _FILES = _FILES | files
    return len(codes)


_CODES = {}


def install_dormant(module):
    """Like install(), but the INSTRUCTION events stay switched off until tracing(module, True): for a check in
    which only a few runs are threaded and the rest must not pay for the callback.  Switch only while no
    logical thread exists (before spawn / after run() has joined them)."""
    n = install(module)
    _CODES[module.__file__] = _collect_code(module, frozenset([module.__file__]))
    tracing(module, False)
    return n


def tracing(module, on):
    mon = sys.monitoring
    ev = mon.events.INSTRUCTION if on else 0
    for co in _CODES[module.__file__]:
        mon.set_local_events(_TOOL, co, ev)


def _on_instruction(code, offset):
    s = _ACTIVE
    if s is not None:
        if s.cur is not None and s.cur.ident == threading.get_ident():
            s.yield_point(('op', code.co_name, offset))
        return
    b = _BUDGET
    if b is not None:
        b.left -= 1
        if b.left < 0:
            raise OpcodeBudget.Exceeded()


class OpcodeBudget:
    """Context manager for the main thread: bytecode budget over the instrumented files
    (turns an endless loop in the code under test into OpcodeBudget.Exceeded)."""

    class Exceeded(BaseException):
        pass

    def __init__(self, budget):
        self.left = budget
        self.start = budget

    def __enter__(self):
        global _BUDGET
        _BUDGET = self
        return self

    def __exit__(self, *a):
        global _BUDGET
        _BUDGET = None
        return False

    @property
    def used(self):
        return self.start - self.left


def selfcheck(fn):
    """Harness sanity: instruction events must really be delivered."""
    with OpcodeBudget(1 << 60) as b:
        fn()
    if b.used < 10:
        raise RuntimeError('threadsim: no instruction events delivered (got %d)' % b.used)
    return b.used
