"""simfs -- an in-memory POSIX subset with a durability model, errno injection and
crash points, served to the code under test through the module globals ``os`` /
``fcntl`` / ``open`` (fileutils) and ``TemporaryFile`` / ``os`` (ioutils).

Every seam call is an *event* with an index in the run.  A plan names the event at
which the machine crashes, and the events at which a fault fires.  The file object
handed out by fdopen() is CPython's own BufferedRandom / TextIOWrapper over a
simulated raw file, so buffering, flushing, short-write retry and error behaviour
are the real thing.
"""
import copy
import errno as _errno
import io
import os as _os
import posixpath
import stat as _stat

from simkit.core import Unsimulated


class CrashNow(BaseException):
    """The simulated machine stopped: raised at the crash point and by every later
    seam call, so that no unwinding code can reach the (already snapshotted) disk."""


class Inode:
    __slots__ = ('ino', 'data', 'mode', 'nlink', 'synced', 'pending', 'nopen', 'created_event')

    def __init__(self, ino, data=b'', mode=0o644, synced=None):
        self.ino = ino
        self.data = bytearray(data)
        self.mode = mode
        self.nlink = 0
        self.synced = bytes(data) if synced is None else synced   # durable content
        self.pending = []           # [(offset, bytes)] written since the last fsync
        self.nopen = 0
        self.created_event = None


class OpenFile:
    __slots__ = ('ino', 'flags', 'pos', 'cloexec')

    def __init__(self, ino, flags):
        self.ino = ino
        self.flags = flags
        self.pos = 0
        self.cloexec = False


class StatResult:
    def __init__(self, ino):
        self.st_mode = (_stat.S_IFDIR if ino.ino == 1 else _stat.S_IFREG) | ino.mode
        self.st_size = len(ino.data)
        self.st_ino = ino.ino
        self.st_nlink = ino.nlink
        self.st_blksize = 4096
        self.st_uid = self.st_gid = 1000
        self.st_mtime = self.st_atime = self.st_ctime = 0.0
        self.st_dev = 1


class SimFS:
    """Volatile (kernel) state + what a power cut would leave on the platter."""

    def __init__(self, cwd='/sim/dir', umask=0o022):
        self.cwd = cwd
        self.umask = umask
        self.inodes = {}
        self.dir = {}               # absolute path -> ino   (one flat directory tree is enough)
        self.fds = {}
        self.next_ino = 100
        self.next_fd = 10
        self.journal = []           # metadata records since mount, in issue order
        self.durable_meta = 0       # journal[:durable_meta] is on disk for sure
        self.initial_dir = {}
        self.initial_modes = {}
        self.full = False           # persistent disk-full state
        self.DIR_INO = 1
        self.inodes[1] = Inode(1, b'', 0o755)
        self.dirs = {cwd, posixpath.dirname(cwd), '/'}
        self.symlinks = {}          # absolute path of the link -> target string (may dangle)
        self.initial_symlinks = {}

    # -- set-up (pre-state is fully durable) ------------------------------------------
    def preload(self, path, data, mode):
        path = self.abspath(path)
        ino = Inode(self.next_ino, data, mode)
        self.next_ino += 1
        ino.nlink = 1
        self.inodes[ino.ino] = ino
        self.dir[path] = ino.ino
        self.initial_dir[path] = ino.ino
        self.initial_modes[ino.ino] = mode
        return ino

    def preload_symlink(self, path, target):
        path = self.abspath(path)
        self.symlinks[path] = target
        self.initial_symlinks[path] = target

    def abspath(self, p):
        if isinstance(p, bytes):
            p = p.decode()
        if not p.startswith('/'):
            p = posixpath.join(self.cwd, p)
        return posixpath.normpath(p)

    NAME_MAX = 255

    def namecheck(self, path):
        """ENAMETOOLONG for a path with a component longer than NAME_MAX bytes (what every system call does)."""
        for comp in str(path).split('/'):
            if len(comp.encode('utf-8', 'surrogateescape')) > self.NAME_MAX:
                raise OSError(_errno.ENAMETOOLONG, 'File name too long', path)

    def follow(self, path):
        """Resolve symbolic links in the final component (ELOOP after 8 hops)."""
        path = self.abspath(path)
        for _ in range(8):
            t = self.symlinks.get(path)
            if t is None:
                return path
            path = posixpath.normpath(t if t.startswith('/') else posixpath.join(posixpath.dirname(path), t))
        raise OSError(_errno.ELOOP, 'Too many levels of symbolic links', path)

    def lexists(self, path):
        p = self.abspath(path)
        return p in self.dir or p in self.symlinks or p in self.dirs

    def is_symlink(self, path):
        return self.abspath(path) in self.symlinks

    def binding(self, path):
        """What the name itself is bound to: an inode number, ('symlink', target) or None."""
        p = self.abspath(path)
        if p in self.symlinks:
            return ('symlink', self.symlinks[p])
        return self.dir.get(p)

    # -- metadata operations -----------------------------------------------------------
    def lookup(self, path):
        """inode number the path resolves to (following symlinks), or None."""
        return self.dir.get(self.follow(path))

    def create(self, path, mode):
        path = self.abspath(path)
        self.namecheck(path)
        if self.full:
            raise OSError(_errno.ENOSPC, 'No space left on device', path)
        ino = Inode(self.next_ino, b'', mode & ~self.umask & 0o7777, synced=b'')
        self.next_ino += 1
        ino.nlink = 1
        self.inodes[ino.ino] = ino
        self.dir[path] = ino.ino
        self.journal.append(('create', path, ino.ino, ino.mode))
        return ino

    def link(self, src, dst):
        src, dst = self.abspath(src), self.abspath(dst)
        self.namecheck(src)
        self.namecheck(dst)
        if src not in self.dir:
            raise FileNotFoundError(_errno.ENOENT, 'No such file or directory', src)
        if dst in self.dir or dst in self.symlinks:
            raise FileExistsError(_errno.EEXIST, 'File exists', dst)
        i = self.dir[src]
        self.dir[dst] = i
        self.inodes[i].nlink += 1
        self.journal.append(('link', dst, i))

    def unlink(self, path):
        path = self.abspath(path)
        self.namecheck(path)
        if path in self.symlinks:            # removes the link itself, never its target
            del self.symlinks[path]
            self.journal.append(('unlink', path))
            return
        if path not in self.dir:
            raise FileNotFoundError(_errno.ENOENT, 'No such file or directory', path)
        i = self.dir.pop(path)
        self.inodes[i].nlink -= 1
        self.journal.append(('unlink', path))

    def rename(self, src, dst):
        src, dst = self.abspath(src), self.abspath(dst)
        self.namecheck(src)
        self.namecheck(dst)
        if src not in self.dir:
            raise FileNotFoundError(_errno.ENOENT, 'No such file or directory', src)
        i = self.dir[src]
        if self.dir.get(dst) == i:
            return                   # POSIX: same file, no-op
        if dst in self.dir:
            self.inodes[self.dir[dst]].nlink -= 1
        self.symlinks.pop(dst, None)         # rename replaces a symlink itself, not its target
        del self.dir[src]
        self.dir[dst] = i
        self.journal.append(('rename', src, dst))

    def chmod(self, path, mode):
        path = self.follow(path)
        self.namecheck(path)
        if path not in self.dir:
            raise FileNotFoundError(_errno.ENOENT, 'No such file or directory', path)
        i = self.dir[path]
        self.inodes[i].mode = mode & 0o7777
        self.journal.append(('chmod', i, mode & 0o7777))

    # -- data operations ----------------------------------------------------------------
    def alloc_fd(self):
        """POSIX: the lowest-numbered descriptor that is not open (so a closed number is handed out again at once)."""
        fd = getattr(self, 'first_fd', 10)
        while fd in self.fds:
            fd += 1
        return fd

    def open(self, path, flags, mode=0o777):
        path = self.abspath(path)
        self.namecheck(path)
        if path in self.dirs:
            if flags & (_os.O_WRONLY | _os.O_RDWR):
                raise IsADirectoryError(_errno.EISDIR, 'Is a directory', path)
            fd = self.alloc_fd()
            self.fds[fd] = OpenFile(self.DIR_INO, flags)
            return fd
        if path in self.symlinks:
            if flags & _os.O_CREAT and flags & _os.O_EXCL:
                raise FileExistsError(_errno.EEXIST, 'File exists', path)
            if flags & getattr(_os, 'O_NOFOLLOW', 0):
                raise OSError(_errno.ELOOP, 'Too many levels of symbolic links', path)
            path = self.follow(path)         # opens (or creates) the target
        i = self.dir.get(path)
        if i is not None:
            if flags & _os.O_CREAT and flags & _os.O_EXCL:
                raise FileExistsError(_errno.EEXIST, 'File exists', path)
            ino = self.inodes[i]
            if flags & _os.O_TRUNC:
                ino.pending.append(('trunc', 0))
                del ino.data[:]
        else:
            if not flags & _os.O_CREAT:
                raise FileNotFoundError(_errno.ENOENT, 'No such file or directory', path)
            ino = self.create(path, mode)
        fd = self.alloc_fd()
        self.fds[fd] = OpenFile(ino.ino, flags)
        ino.nopen += 1
        return fd

    def _of(self, fd):
        of = self.fds.get(fd)
        if of is None:
            raise OSError(_errno.EBADF, 'Bad file descriptor')
        return of

    def write(self, fd, data, limit=None):
        of = self._of(fd)
        ino = self.inodes[of.ino]
        data = bytes(data)
        if limit is not None:
            data = data[:limit]
        if not data:
            return 0
        if self.full:
            raise OSError(_errno.ENOSPC, 'No space left on device')
        if of.flags & _os.O_APPEND:
            of.pos = len(ino.data)
        if of.pos > len(ino.data):
            ino.data.extend(b'\0' * (of.pos - len(ino.data)))
        ino.data[of.pos:of.pos + len(data)] = data
        ino.pending.append((of.pos, data))
        of.pos += len(data)
        return len(data)

    def read(self, fd, n):
        of = self._of(fd)
        ino = self.inodes[of.ino]
        data = bytes(ino.data[of.pos:of.pos + n])
        of.pos += len(data)
        return data

    def lseek(self, fd, off, whence=0):
        of = self._of(fd)
        ino = self.inodes[of.ino]
        if whence == 0:
            pos = off
        elif whence == 1:
            pos = of.pos + off
        else:
            pos = len(ino.data) + off
        if pos < 0:
            raise OSError(_errno.EINVAL, 'Invalid argument')
        of.pos = pos
        return pos

    def ftruncate(self, fd, size):
        of = self._of(fd)
        ino = self.inodes[of.ino]
        if size < len(ino.data):
            del ino.data[size:]
        else:
            ino.data.extend(b'\0' * (size - len(ino.data)))
        ino.pending.append(('trunc', size))

    def fsync(self, fd):
        of = self._of(fd)
        if of.ino == self.DIR_INO:
            self.durable_meta = len(self.journal)     # directory fsync: entries are durable
            return
        ino = self.inodes[of.ino]
        ino.synced = bytes(ino.data)
        ino.pending = []
        self.durable_meta = len(self.journal)

    def close(self, fd):
        of = self._of(fd)
        del self.fds[fd]
        self.inodes[of.ino].nopen -= 1

    def settle(self):
        """The process is gone and time has passed: descriptors are closed by the kernel and
        everything the kernel knew has reached the disk.  The result is a durable pre-state
        for a later run on the same file system."""
        for fd in list(self.fds):
            self.inodes[self.fds[fd].ino].nopen -= 1
            del self.fds[fd]
        for n in self.inodes.values():
            n.synced = bytes(n.data)
            n.pending = []
        self.journal = []
        self.durable_meta = 0
        self.initial_dir = dict(self.dir)
        self.initial_symlinks = dict(self.symlinks)
        self.full = False

    # -- observation -----------------------------------------------------------------------
    def read_path(self, path):
        i = self.lookup(path)
        return None if i is None else bytes(self.inodes[i].data)

    def mode_of(self, path):
        i = self.lookup(path)
        return None if i is None else self.inodes[i].mode

    def listing(self):
        return sorted(self.dir)

    def snapshot(self):
        return Snapshot(self)


class _LinkDir(dict):
    """name -> inode mapping whose get() follows the symlinks that exist in that image."""

    def __init__(self, d, syms):
        super().__init__(d)
        self.syms = syms

    def get(self, path, default=None):
        return super().get(Snapshot._follow(path, self.syms), default)


class Snapshot:
    """Frozen copy of the file system at a crash instant, with the two observations."""

    def __init__(self, fs):
        self.dir = dict(fs.dir)
        self.initial_dir = dict(fs.initial_dir)
        self.journal = list(fs.journal)
        self.durable_meta = fs.durable_meta
        self.inodes = {i: (bytes(n.data), n.synced, list(n.pending)) for i, n in fs.inodes.items()}
        self.dirs = set(fs.dirs)
        self.symlinks = dict(fs.symlinks)
        self.initial_symlinks = dict(fs.initial_symlinks)
        self.cwd = fs.cwd

    # (P) process death: the kernel's view survives
    @staticmethod
    def _follow(path, syms):
        for _ in range(8):
            t = syms.get(path)
            if t is None:
                return path
            path = posixpath.normpath(t if t.startswith('/') else posixpath.join(posixpath.dirname(path), t))
        return path

    def process_view(self, path):
        i = self.dir.get(self._follow(path, self.symlinks))
        return None if i is None else self.inodes[i][0]

    # (S) power loss
    def meta_prefixes(self):
        return range(self.durable_meta, len(self.journal) + 1)

    def dir_after_prefix(self, j):
        """Directory after the first j journal records became durable.  The returned mapping
        resolves symlinks on lookup (``d.get(path)`` follows links that are still there)."""
        d = dict(self.initial_dir)
        syms = dict(self.initial_symlinks)
        for rec in self.journal[:j]:
            op = rec[0]
            if op == 'create':
                d[rec[1]] = rec[2]
            elif op == 'link':
                d[rec[1]] = rec[2]
            elif op == 'unlink':
                if rec[1] in syms:
                    del syms[rec[1]]
                else:
                    d.pop(rec[1], None)
            elif op == 'rename':
                if rec[1] in d:
                    syms.pop(rec[2], None)
                    d[rec[2]] = d.pop(rec[1])
        return _LinkDir(d, syms)

    def data_choices(self, ino, rng):
        """Contents an inode may have after power loss: nothing un-synced, everything,
        and one seeded subset of the un-synced writes with a torn tail."""
        data, synced, pending = self.inodes[ino]
        out = [('synced-only', synced), ('all-pending', data)]
        if pending:
            buf = bytearray(synced)
            picked = [w for w in pending if rng.random() < 0.6] or [pending[0]]
            for n, w in enumerate(picked):
                if w[0] == 'trunc':
                    if w[1] < len(buf):
                        del buf[w[1]:]
                    else:
                        buf.extend(b'\0' * (w[1] - len(buf)))
                    continue
                off, b = w
                if n == len(picked) - 1 and len(b) > 1:
                    b = b[:rng.randint(1, len(b) - 1)]          # torn write
                if off > len(buf):
                    buf.extend(b'\0' * (off - len(buf)))
                buf[off:off + len(b)] = b
            out.append(('subset-torn', bytes(buf)))
        return out


# ------------------------------------------------------------------------------------
# the run: event counter, plan (crash point, faults), trace

class Plan:
    def __init__(self, crash_at=None, faults=None):
        self.crash_at = crash_at            # event index or None
        self.faults = dict(faults or {})    # event index -> (kind, arg)


class Sim:
    def __init__(self, fs, plan=None, log=None, blksize=8192):
        self.fs = fs
        self.plan = plan or Plan()
        self.log = log
        self.blksize = blksize
        self.n = 0                  # next event index
        self.trace = []             # (kind, detail) per event
        self.crashed = None         # Snapshot taken at the crash point
        self.fired = []             # (event index, kind, arg) faults that actually fired
        self.files = []             # file objects handed out (to dispose of quietly)
        self.dead = False           # after the run: seam calls become inert
        self.hooks = {}             # event index -> callable (second-party actions)
        self.publish = []           # (event index, path, ino, data at that instant, unsynced?)
        self.writes_after_publish = 0
        self.binding_changes = {}   # path -> number of seam calls that changed its binding
        self.watch = set()
        self.persistent = {}        # kind -> fault applied to EVERY such call (environment personality)
        self.armed = True           # False while the harness replays un-judged warm-up work
        self.kind_count = {}        # kind -> occurrences so far
        self.occ = []               # (kind, occurrence) per event

    def event(self, kind, detail=None):
        """Called at the start of every seam call.  Returns the fault to apply or None."""
        if self.dead:
            return None
        if self.crashed is not None:
            raise CrashNow()
        if not self.armed:
            return None
        k = self.n
        self.n += 1
        self.trace.append((kind, detail))
        occ = self.kind_count.get(kind, 0)
        self.kind_count[kind] = occ + 1
        self.occ.append((kind, occ))
        if self.log is not None:
            self.log.add('ev', k, kind, detail)
        if self.plan.crash_at == k:
            self.crashed = self.fs.snapshot()
            if self.log is not None:
                self.log.add('crash', k)
            raise CrashNow()
        h = self.hooks.get(k) or self.hooks.get((kind, occ))
        if h is not None:
            h()
        f = self.plan.faults.get(k) or self.plan.faults.get((kind, occ)) or self.persistent.get(kind)
        if f is not None:
            self.fired.append((k, kind, f))
            if self.log is not None:
                self.log.add('fault', k, kind, f)
        return f

    def note_binding(self, path, before, after):
        if before != after and path in self.watch:
            self.binding_changes[path] = self.binding_changes.get(path, 0) + 1

    def dispose(self):
        """Make every handed-out file object inert and close it (no finaliser noise)."""
        # file objects the code under test left open although their descriptor number was closed behind their back
        # (os.close(f.fileno()) with f alive): in a real process their finaliser closes that *number* again, whenever
        # it runs -- by then it may belong to another file
        self.orphans = []
        for fo in self.files:
            try:
                if not fo.closed:
                    n = fo.fileno()
                    if isinstance(n, int) and n not in self.fs.fds and n not in self.orphans:
                        self.orphans.append(n)
            except BaseException:
                pass
        self.dead = True
        for fo in self.files:
            try:
                fo.close()
            except BaseException:
                pass


def _raise(fault, *args):
    kind, arg = fault
    if kind == 'errno':
        raise OSError(arg, _os.strerror(arg), *args)
    raise AssertionError('fault %r cannot be raised here' % (fault,))


class SimRaw(io.RawIOBase):
    """The raw file under CPython's buffered/text layers."""

    def __init__(self, sim, fd, mode, name):
        super().__init__()
        self.sim = sim
        self.fd = fd
        self.mode = mode
        self.name = name
        self._blksize = sim.blksize

    def readable(self):
        return True

    def writable(self):
        return True

    def seekable(self):
        return True

    def fileno(self):
        return self.fd

    def isatty(self):
        return False

    def write(self, b):
        sim = self.sim
        b = bytes(b)
        if sim.dead:
            return len(b)
        f = sim.event('raw.write', len(b))
        limit = None
        if f is not None:
            if f[0] == 'errno':
                _raise(f)
            elif f[0] == 'short':
                limit = max(1, min(len(b) - 1, f[1])) if len(b) > 1 else None
            elif f[0] == 'disk-full':
                sim.fs.full = True
        n = sim.fs.write(self.fd, b, limit)
        ino = sim.fs.fds[self.fd].ino
        if any(p[2] == ino for p in sim.publish):
            sim.writes_after_publish += 1
        return n

    def readinto(self, buf):
        sim = self.sim
        if sim.dead:
            return 0
        sim.event('raw.read', len(buf))
        data = sim.fs.read(self.fd, len(buf))
        buf[:len(data)] = data
        return len(data)

    def seek(self, off, whence=0):
        sim = self.sim
        if sim.dead:
            return 0
        if sim.crashed is not None:
            raise CrashNow()
        return sim.fs.lseek(self.fd, off, whence)

    def tell(self):
        return self.seek(0, 1)

    def truncate(self, size=None):
        sim = self.sim
        if sim.dead:
            return 0
        sim.event('raw.truncate', size)
        if size is None:
            size = sim.fs.lseek(self.fd, 0, 1)
        sim.fs.ftruncate(self.fd, size)
        return size

    def close(self):
        if self.closed:
            return
        sim = self.sim
        try:
            if not sim.dead:
                f = sim.event('raw.close', self.fd)
                if self.fd in sim.fs.fds:
                    sim.fs.close(self.fd)      # the descriptor is released even if close fails
                if f is not None and f[0] == 'errno':
                    _raise(f)
        finally:
            super().close()


def _mk_ev_classes():
    class EvBufferedRandom(io.BufferedRandom):
        _sim = None

        def write(self, b):
            self._sim.event('fo.write', len(b))
            return super().write(b)

        def flush(self):
            self._sim.event('fo.flush')
            return super().flush()

        def close(self):
            if not self.closed:
                self._sim.event('fo.close')
            return super().close()

    class EvTextIOWrapper(io.TextIOWrapper):
        _sim = None

        def write(self, s):
            self._sim.event('fo.write', len(s))
            return super().write(s)

        def flush(self):
            self._sim.event('fo.flush')
            return super().flush()

        def close(self):
            if not self.closed:
                self._sim.event('fo.close')
            return super().close()

    return EvBufferedRandom, EvTextIOWrapper


EvBufferedRandom, EvTextIOWrapper = _mk_ev_classes()


class SimPath:
    def __init__(self, sim):
        self._sim = sim

    def abspath(self, p):
        return self._sim.fs.abspath(p)

    def lexists(self, p):
        if self._sim.crashed is not None and not self._sim.dead:
            raise CrashNow()
        self._sim.event('lexists', self._sim.fs.abspath(p))
        try:
            self._sim.fs.namecheck(self._sim.fs.abspath(p))
        except OSError:
            return False
        return self._sim.fs.lexists(p)

    def exists(self, p):
        if self._sim.crashed is not None and not self._sim.dead:
            raise CrashNow()
        self._sim.event('exists', self._sim.fs.abspath(p))
        fs = self._sim.fs
        try:
            fs.namecheck(fs.abspath(p))
        except OSError:
            return False
        return fs.lookup(p) is not None or fs.follow(p) in fs.dirs

    def isfile(self, p):
        return self._sim.fs.lookup(p) is not None

    def islink(self, p):
        return self._sim.fs.is_symlink(p)

    def realpath(self, p, **kw):
        return self._sim.fs.follow(p)

    def isdir(self, p):
        return self._sim.fs.abspath(p) in self._sim.fs.dirs

    def __getattr__(self, name):
        return getattr(posixpath, name)


class SimOS:
    """Stand-in for the ``os`` module as seen by the code under test."""

    name = 'posix'
    error = OSError
    sep = '/'
    linesep = '\n'

    def __init__(self, sim):
        self._sim = sim
        self.path = SimPath(sim)

    def __getattr__(self, name):
        # constants (O_*, SEEK_*, F_OK ...) come from the real module; any *function*
        # that is not simulated would touch the real file system and is refused
        val = getattr(_os, name)
        if callable(val) and name not in ('strerror', 'fspath', 'fsencode', 'fsdecode', 'getpid', 'urandom'):
            raise Unsimulated('os.%s is not simulated' % name)
        return val

    # -- calls --------------------------------------------------------------------------
    def stat(self, path, *a, **k):
        sim = self._sim
        f = sim.event('stat', sim.fs.abspath(path))
        if f is not None:
            _raise(f, path)
        sim.fs.namecheck(sim.fs.abspath(path))
        i = sim.fs.lookup(path)
        if i is None and sim.fs.follow(path) in sim.fs.dirs:
            i = sim.fs.DIR_INO
        if i is None:
            raise FileNotFoundError(_errno.ENOENT, 'No such file or directory', path)
        return StatResult(sim.fs.inodes[i])

    def lstat(self, path, *a, **k):
        sim = self._sim
        if sim.fs.is_symlink(path):
            sim.event('lstat', sim.fs.abspath(path))
            r = StatResult(sim.fs.inodes[sim.fs.DIR_INO])
            r.st_mode = _stat.S_IFLNK | 0o777
            return r
        return self.stat(path)

    def readlink(self, path):
        p = self._sim.fs.abspath(path)
        if p not in self._sim.fs.symlinks:
            raise OSError(_errno.EINVAL, 'Invalid argument', path)
        return self._sim.fs.symlinks[p]

    def fstat(self, fd):
        sim = self._sim
        sim.event('fstat', fd)
        return StatResult(sim.fs.inodes[sim.fs._of(fd).ino])

    def open(self, path, flags, mode=0o777, *a, **k):
        sim = self._sim
        f = sim.event('open', sim.fs.abspath(path))
        if f is not None:
            _raise(f, path)
        p = sim.fs.abspath(path)
        before = sim.fs.binding(p)
        fd = sim.fs.open(path, flags, mode)
        sim.note_binding(p, before, sim.fs.binding(p))
        return fd

    def fdopen(self, fd, mode='r', buffering=-1, encoding=None, errors=None, newline=None):
        """io.open(fd, ...) re-implemented from _pyio.open over a SimRaw."""
        sim = self._sim
        sim.event('fdopen', fd)
        if not isinstance(fd, int):
            raise TypeError('invalid file: %r' % (fd,))
        modes = set(mode)
        if modes - set('axrwb+t') or len(mode) > len(modes):
            raise ValueError('invalid mode: %r' % mode)
        binary = 'b' in modes
        text = not binary
        if 't' in modes and binary:
            raise ValueError("can't have text and binary mode at once")
        if binary and encoding is not None:
            raise ValueError("binary mode doesn't take an encoding argument")
        sim.fs._of(fd)
        raw = SimRaw(sim, fd, mode, fd)
        line_buffering = False
        if buffering == 1 and text:
            buffering = -1
            line_buffering = True
        elif buffering == 1:
            buffering = -1          # io.open: line buffering is not supported in binary mode
        if buffering < 0:
            buffering = sim.blksize
        if buffering == 0:
            if binary:
                sim.files.append(raw)
                return raw
            raise ValueError("can't have unbuffered text I/O")
        if '+' in modes:
            cls = EvBufferedRandom if binary else io.BufferedRandom
            buf = cls(raw, buffering)
        elif 'w' in modes or 'a' in modes or 'x' in modes:
            buf = io.BufferedWriter(raw, buffering)
        else:
            buf = io.BufferedReader(raw, buffering)
        if binary:
            if isinstance(buf, EvBufferedRandom):
                buf._sim = sim
            sim.files.append(buf)
            return buf
        tw = EvTextIOWrapper(buf, encoding or 'utf-8', errors, newline, line_buffering)
        tw._sim = sim
        tw.mode = mode
        sim.files.append(tw)
        return tw

    def close(self, fd):
        sim = self._sim
        sim.event('close', fd)
        sim.fs.close(fd)

    def write(self, fd, data):
        sim = self._sim
        f = sim.event('write', len(data))
        if f is not None and f[0] == 'errno':
            _raise(f)
        return sim.fs.write(fd, data)

    def read(self, fd, n):
        self._sim.event('read', n)
        return self._sim.fs.read(fd, n)

    def chmod(self, path, mode, *a, **k):
        sim = self._sim
        f = sim.event('chmod', sim.fs.abspath(path))
        if f is not None:
            _raise(f, path)
        sim.fs.chmod(path, mode)

    def fchmod(self, fd, mode):
        sim = self._sim
        f = sim.event('fchmod', fd)
        if f is not None:
            _raise(f)
        ino = sim.fs.inodes[sim.fs._of(fd).ino]
        ino.mode = mode & 0o7777
        sim.fs.journal.append(('chmod', ino.ino, ino.mode))

    def fsync(self, fd):
        sim = self._sim
        of = sim.fs.fds.get(fd)
        f = sim.event('fsync', 'dir' if (of is not None and of.ino == sim.fs.DIR_INO) else fd)
        if f is not None:
            _raise(f)
        sim.fs.fsync(fd)

    fdatasync = fsync

    def _publishing(self, kind, src, dst):
        sim = self._sim
        s, d = sim.fs.abspath(src), sim.fs.abspath(dst)
        i = sim.fs.dir.get(s)
        if i is not None and d in sim.watch:
            n = sim.fs.inodes[i]
            sim.publish.append((sim.n - 1, d, i, bytes(n.data), bool(n.pending), kind))

    def rename(self, src, dst, *a, **k):
        sim = self._sim
        f = sim.event('rename', (sim.fs.abspath(src), sim.fs.abspath(dst)))
        if f is not None:
            _raise(f, src, None, dst)
        d = sim.fs.abspath(dst)
        s = sim.fs.abspath(src)
        before_d, before_s = sim.fs.binding(d), sim.fs.binding(s)
        self._publishing('rename', src, dst)
        sim.fs.rename(src, dst)
        sim.note_binding(d, before_d, sim.fs.binding(d))
        sim.note_binding(s, before_s, sim.fs.binding(s))

    replace = rename

    def link(self, src, dst, *a, **k):
        sim = self._sim
        f = sim.event('link', (sim.fs.abspath(src), sim.fs.abspath(dst)))
        if f is not None:
            _raise(f, src, None, dst)
        d = sim.fs.abspath(dst)
        before = sim.fs.binding(d)
        self._publishing('link', src, dst)
        if before is not None:
            sim.publish.pop()
        sim.fs.link(src, dst)
        sim.note_binding(d, before, sim.fs.binding(d))

    def unlink(self, path, *a, **k):
        sim = self._sim
        f = sim.event('unlink', sim.fs.abspath(path))
        if f is not None:
            _raise(f, path)
        p = sim.fs.abspath(path)
        before = sim.fs.binding(p)
        sim.fs.unlink(path)
        sim.note_binding(p, before, None)

    remove = unlink

    def listdir(self, path='.'):
        self._sim.event('listdir', path)
        base = self._sim.fs.abspath(path).rstrip('/') + '/'
        return sorted(p[len(base):] for p in self._sim.fs.dir if p.startswith(base) and '/' not in p[len(base):])

    def umask(self, m):
        self._sim.event('umask', m)     # a scheduling point: the umask is process-wide state
        old = self._sim.fs.umask
        self._sim.fs.umask = m
        return old

    def getcwd(self):
        return self._sim.fs.cwd

    def getpid(self):
        return getattr(self._sim, 'pid', 4242)      # (the harness "forks" by changing it)

    def utime(self, *a, **k):
        self._sim.event('utime')

    def access(self, path, mode, *a, **k):
        self._sim.event('access', path)
        return self._sim.fs.lookup(path) is not None

    # -- less common calls a re-implementation might reach for ---------------------------------
    def lseek(self, fd, pos, how):
        self._sim.event('lseek', fd)
        return self._sim.fs.lseek(fd, pos, how)

    def ftruncate(self, fd, length):
        sim = self._sim
        f = sim.event('ftruncate', fd)
        if f is not None and f[0] == 'errno':
            _raise(f)
        sim.fs.ftruncate(fd, length)

    def posix_fallocate(self, fd, offset, length):
        # reserve blocks: the file grows (zero-filled) to offset+length when it is shorter
        sim = self._sim
        f = sim.event('fallocate', fd)
        if f is not None and f[0] == 'errno':
            _raise(f)
        ino = sim.fs.inodes[sim.fs._of(fd).ino]
        if offset + length > len(ino.data):
            sim.fs.ftruncate(fd, offset + length)

    def truncate(self, path, length):
        if isinstance(path, int):
            return self.ftruncate(path, length)
        fd = self.open(path, _os.O_WRONLY)
        try:
            self.ftruncate(fd, length)
        finally:
            self.close(fd)

    def pwrite(self, fd, data, offset):
        sim = self._sim
        f = sim.event('write', len(data))
        if f is not None and f[0] == 'errno':
            _raise(f)
        of = sim.fs._of(fd)
        old = of.pos
        of.pos = offset
        try:
            return sim.fs.write(fd, data)
        finally:
            of.pos = old

    def pread(self, fd, n, offset):
        of = self._sim.fs._of(fd)
        old = of.pos
        of.pos = offset
        try:
            return self._sim.fs.read(fd, n)
        finally:
            of.pos = old

    def sync(self):
        sim = self._sim
        sim.event('sync')
        for n in sim.fs.inodes.values():
            n.synced = bytes(n.data)
            n.pending = []
        sim.fs.durable_meta = len(sim.fs.journal)

    def dup(self, fd):
        sim = self._sim
        of = sim.fs._of(fd)
        nfd = sim.fs.alloc_fd()
        sim.fs.fds[nfd] = of            # shares the open file description (offset) like dup(2)
        sim.fs.inodes[of.ino].nopen += 1
        return nfd

    def symlink(self, target, path, *a, **k):
        sim = self._sim
        sim.event('symlink', sim.fs.abspath(path))
        p = sim.fs.abspath(path)
        if sim.fs.lexists(p):
            raise FileExistsError(_errno.EEXIST, 'File exists', path)
        sim.fs.symlinks[p] = target

    def get_inheritable(self, fd):
        return not self._sim.fs._of(fd).cloexec

    def set_inheritable(self, fd, flag):
        self._sim.fs._of(fd).cloexec = not flag

    def getuid(self):
        return 1000

    geteuid = getuid

    def getgid(self):
        return 1000

    def mkdir(self, path, *a, **k):
        raise OSError(_errno.EEXIST, 'File exists', path)

    def makedirs(self, path, mode=0o777, exist_ok=False):
        if not exist_ok:
            raise OSError(_errno.EEXIST, 'File exists', path)


class SimShutil:
    """The subset of shutil an implementation might fall back on, over the simulated os."""
    Error = OSError
    SameFileError = OSError

    def __init__(self, simos):
        self._os = simos

    def copyfileobj(self, fsrc, fdst, length=16 * 1024):
        while True:
            buf = fsrc.read(length)
            if not buf:
                break
            fdst.write(buf)

    def copyfile(self, src, dst, *a, **k):
        o = self._os
        sfd = o.open(src, _os.O_RDONLY)
        try:
            dfd = o.open(dst, _os.O_WRONLY | _os.O_CREAT | _os.O_TRUNC, 0o666)
            try:
                while True:
                    buf = o.read(sfd, 64 * 1024)
                    if not buf:
                        break
                    o.write(dfd, buf)
            finally:
                o.close(dfd)
        finally:
            o.close(sfd)
        return dst

    def copymode(self, src, dst, *a, **k):
        self._os.chmod(dst, _stat.S_IMODE(self._os.stat(src).st_mode))

    copystat = copymode

    def copy(self, src, dst, *a, **k):
        self.copyfile(src, dst)
        self.copymode(src, dst)
        return dst

    copy2 = copy

    def move(self, src, dst, *a, **k):
        try:
            self._os.rename(src, dst)
        except OSError:
            # shutil.move: across file systems the file is copied (the destination is opened for writing,
            # truncated and filled) and the source removed -- nothing atomic about it
            self.copy2(src, dst)
            self._os.unlink(src)
        return dst

    def __getattr__(self, name):
        raise Unsimulated('shutil.%s is not simulated' % name)


class SimFilecmp:
    """filecmp.cmp inside the simulated directory (the real module would stat and open real paths)."""

    def __init__(self, simos):
        self._os = simos

    def cmp(self, f1, f2, shallow=True):
        s1, s2 = self._os.stat(f1), self._os.stat(f2)
        if _stat.S_IFMT(s1.st_mode) != _stat.S_IFREG or _stat.S_IFMT(s2.st_mode) != _stat.S_IFREG:
            return False
        if s1.st_size != s2.st_size:
            return False
        fs = self._os._sim.fs
        return bytes(fs.inodes[s1.st_ino].data) == bytes(fs.inodes[s2.st_ino].data)

    def clear_cache(self):
        pass

    def __getattr__(self, name):
        raise Unsimulated('filecmp.%s is not simulated' % name)


class SimTempfile:
    """tempfile.mkstemp / NamedTemporaryFile-like creation inside the simulated directory."""

    def __init__(self, simos):
        self._os = simos
        self._n = 0

    def mkstemp(self, suffix='', prefix='tmp', dir=None, text=False):
        d = dir or self._os.getcwd()
        while True:
            self._n += 1
            path = posixpath.join(d, '%s%06d%s' % (prefix, self._n, suffix))
            try:
                fd = self._os.open(path, _os.O_RDWR | _os.O_CREAT | _os.O_EXCL, 0o600)
                return fd, path
            except FileExistsError:
                continue

    def gettempdir(self):
        return self._os.getcwd()

    def __getattr__(self, name):
        raise Unsimulated('tempfile.%s is not simulated' % name)


class SimFcntl:
    F_GETFD, F_SETFD, FD_CLOEXEC = 1, 2, 1

    def __init__(self, sim):
        self._sim = sim

    def fcntl(self, fd, cmd, arg=0):
        sim = self._sim
        sim.event('fcntl', cmd)
        of = sim.fs._of(fd)
        if cmd == self.F_GETFD:
            return self.FD_CLOEXEC if of.cloexec else 0
        if cmd == self.F_SETFD:
            of.cloexec = bool(arg & self.FD_CLOEXEC)
            return 0
        raise OSError(_errno.EINVAL, 'Invalid argument')


def make_builtin_open(simos):
    """Replacement for the builtin open() inside the module under test."""
    def sim_open(file, mode='r', buffering=-1, encoding=None, errors=None, newline=None, closefd=True, opener=None):
        if isinstance(file, int):
            return simos.fdopen(file, mode, buffering, encoding, errors, newline)
        m = set(mode)
        flags = 0
        if '+' in m:
            flags |= _os.O_RDWR
        elif 'r' in m:
            flags |= _os.O_RDONLY
        else:
            flags |= _os.O_WRONLY
        if 'w' in m:
            flags |= _os.O_CREAT | _os.O_TRUNC
        if 'x' in m:
            flags |= _os.O_CREAT | _os.O_EXCL
        if 'a' in m:
            flags |= _os.O_CREAT | _os.O_APPEND
        if opener is None:
            fd = simos.open(file, flags, 0o666)
            return simos.fdopen(fd, mode, buffering, encoding, errors, newline)
        # io.open: the mode string is validated before the opener runs; the opener is handed
        # the flags derived from the mode (plus O_CLOEXEC) and must return a descriptor, which
        # the file object then owns -- it is closed again if the object cannot be put together.
        if m - set('axrwb+t') or len(mode) > len(m):
            raise ValueError('invalid mode: %r' % mode)
        if 't' in m and 'b' in m:
            raise ValueError("can't have text and binary mode at once")
        if len(m & set('rwax')) != 1:
            raise ValueError('must have exactly one of create/read/write/append mode')
        if 'b' in m and encoding is not None:
            raise ValueError("binary mode doesn't take an encoding argument")
        fd = opener(file, flags | getattr(_os, 'O_CLOEXEC', 0))
        if not isinstance(fd, int):
            raise TypeError('expected integer from opener')
        if fd < 0:
            raise ValueError('opener returned %d' % fd)
        try:
            return simos.fdopen(fd, mode, buffering, encoding, errors, newline)
        except BaseException:
            try:
                simos.close(fd)
            except OSError:
                pass
            raise
    return sim_open
