"""simrand -- scripted replacement for the global PRNG seen by boltons.iterutils."""
from simkit.core import Unsimulated


class SimRandom:
    """Object with the subset of the ``random`` module iterutils.backoff_iter uses.

    random() pops from a per-run script (cyclically); every draw is logged."""

    def __init__(self, script, log=None):
        self.script = [float(x) for x in script] or [0.5]
        self.i = 0
        self.draws = []
        self.log = log

    def random(self):
        v = self.script[self.i % len(self.script)]
        self.i += 1
        if not (0.0 <= v < 1.0):
            raise ValueError('simrand: scripted draw %r outside [0, 1)' % v)
        self.draws.append(v)
        if self.log is not None:
            self.log.add('draw', v)
        return v

    __call__ = random            # in case the module did ``from random import random``

    def uniform(self, a, b):
        return a + (b - a) * self.random()

    def __getattr__(self, name):
        raise Unsimulated('random.%s is not simulated' % name)
