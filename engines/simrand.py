"""simrand -- scripted replacement for the global PRNG seen by boltons.iterutils."""
from simkit.core import Unsimulated


class SimRandom:
    """Object with the subset of the ``random`` module iterutils.backoff_iter uses.

    random() pops from a per-run script (cyclically); every draw is logged."""

    def __init__(self, script, log=None):
        self.script = [float(x) for x in script] or [0.5]
        self.i = 0
        self.draws = []
        self.log = log

    def random(self):
        v = self.script[self.i % len(self.script)]
        self.i += 1
        if not (0.0 <= v < 1.0):
            raise ValueError('simrand: scripted draw %r outside [0, 1)' % v)
        self.draws.append(v)
        if self.log is not None:
            self.log.add('draw', v)
        return v

    __call__ = random            # in case the module did ``from random import random``

    # -- the operating system's entropy pool (random.SystemRandom) ---------------------------------
    entropy_fail_at = None       # index of the draw at which the entropy read fails (once), or None

    def SystemRandom(self, *a, **k):
        return _SystemProxy(self)

    def uniform(self, a, b):
        return a + (b - a) * self.random()

    def __getattr__(self, name):
        raise Unsimulated('random.%s is not simulated' % name)


class _SystemProxy:
    """random.SystemRandom() as seen by the code under test: the same scripted draws, but every draw is a read of the
    operating system's entropy pool -- a system call, which the simulator may fail (EIO) at a scripted draw."""

    def __init__(self, sim):
        self._sim = sim

    def random(self):
        sim = self._sim
        if sim.entropy_fail_at is not None and sim.i == sim.entropy_fail_at:
            sim.entropy_fail_at = None
            sim.entropy_failed = True
            if sim.log is not None:
                sim.log.add('entropy-read-fails', sim.i)
            raise OSError(5, 'simulated failure of the entropy source')
        return sim.random()

    __call__ = random

    def uniform(self, a, b):
        return a + (b - a) * self.random()

    def __getattr__(self, name):
        raise Unsimulated('random.SystemRandom().%s is not simulated' % name)
